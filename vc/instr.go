package vc

import (
	"sort"
	"fmt"
	"go/token"
	"go/types"
	"strings"

	"golang.org/x/tools/go/ssa"
)

func (fc *FuncCtx) execInstr(ins ssa.Instruction, st *State, reach string) {
	switch x := ins.(type) {
	case *ssa.Alloc:
		fc.execAlloc(x, st, reach)
	case *ssa.Store:
		addr := fc.val(st, x.Addr)
		v := fc.val(st, x.Val)
		lv := fc.addrOf(addr, st, reach, x.Pos(), true)
		if a, ok := x.Addr.(*ssa.Alloc); ok && (v.Fn != nil || v.Clo != nil) {
			fc.fnCells[a] = v
		}
		if v.LV != nil && v.T == "" {
			panic(unsupported("storing the address of a local variable"))
		}
		fc.store(st, lv, v.T)
	case *ssa.UnOp:
		fc.execUnOp(x, st, reach)
	case *ssa.BinOp:
		fc.execBinOp(x, st, reach)
	case *ssa.FieldAddr:
		base := fc.val(st, x.X)
		stTy := x.X.Type().Underlying().(*types.Pointer).Elem()
		fty := stTy.Underlying().(*types.Struct).Field(x.Field).Type()
		if base.LV != nil {
			lv := *base.LV
			lv.Path = append(append([]pathStep{}, lv.Path...), pathStep{Field: x.Field, Ty: stTy})
			lv.Ty = fty
			fc.vals[x] = Val{Ty: x.Type(), LV: &lv}
			return
		}
		fc.oblige(fmt.Sprintf("nil#%d/fieldaddr", fc.ord("nil")), "nil", reach, "(not (= "+base.T+" 0))", x.Pos(), "nil pointer dereference")
		fc.vals[x] = Val{Ty: x.Type(), LV: &LValue{Kind: lvHeapField, Ref: base.T, Struct: stTy, Field: x.Field, RootTy: fty, Ty: fty}}
	case *ssa.Field:
		base := fc.val(st, x.X)
		sel, f := fc.S.Field(x.X.Type(), x.Field)
		fc.vals[x] = Val{T: fc.define(f.Sort, "("+sel+" "+base.T+")", x.Name()), Ty: x.Type()}
	case *ssa.IndexAddr:
		fc.execIndexAddr(x, st, reach)
	case *ssa.Index:
		base := fc.val(st, x.X)
		idx := fc.val(st, x.Index)
		switch u := x.X.Type().Underlying().(type) {
		case *types.Array:
			fc.oblige(fmt.Sprintf("index#%d/inbounds", fc.ord("index")), "index", reach, fmt.Sprintf("(and (<= 0 %s) (< %s %d))", idx.T, idx.T, u.Len()), x.Pos(), "array index")
			fc.vals[x] = Val{T: "(select " + base.T + " " + idx.T + ")", Ty: x.Type()}
		case *types.Basic: // string
			fc.oblige(fmt.Sprintf("index#%d/inbounds", fc.ord("index")), "index", reach, "(and (<= 0 "+idx.T+") (< "+idx.T+" (strlen "+base.T+")))", x.Pos(), "string index")
			fc.vals[x] = Val{T: fc.define("Int", "(strbyte "+base.T+" "+idx.T+")", x.Name()), Ty: x.Type()}
		default:
			panic(unsupported("Index on " + x.X.Type().String()))
		}
	case *ssa.Slice:
		fc.execSlice(x, st, reach)
	case *ssa.Call:
		fc.execCall(x, st, reach)
	case *ssa.MakeSlice:
		ln := fc.val(st, x.Len).T
		cp := fc.val(st, x.Cap).T
		et := x.Type().Underlying().(*types.Slice).Elem()
		fc.oblige(fmt.Sprintf("makeslice#%d/len", fc.ord("makeslice")), "index", reach, "(and (<= 0 "+ln+") (<= "+ln+" "+cp+"))", x.Pos(), "make: 0 <= len <= cap")
		ek := fc.elemComp(et)
		r := fc.allocRef(st)
		e0 := fc.get(st, ek)
		fc.set(st, ek, "(store "+e0+" "+r+" "+fc.zeroArray(et)+")")
		fc.atFrame(et, e0, fc.get(st, ek), func(b, ix string) string { return "(= " + b + " " + r + ")" })
		fc.vals[x] = Val{T: fc.define("Slice", "(mk-slice "+r+" 0 "+ln+" "+cp+")", x.Name()), Ty: x.Type()}
	case *ssa.MakeMap:
		mt := x.Type().Underlying().(*types.Map)
		dk, vk := fc.mapComps(mt)
		r := fc.allocRef(st)
		fc.set(st, dk, "(store "+fc.get(st, dk)+" "+r+" ((as const (Array "+fc.S.SortOf(mt.Key())+" Bool)) false))")
		_ = vk
		fc.set(st, "Mlen:"+types.TypeString(mt, nil), "(store "+fc.get(st, "Mlen:"+types.TypeString(mt, nil))+" "+r+" 0)")
		fc.vals[x] = Val{T: r, Ty: x.Type()}
	case *ssa.MapUpdate:
		m := fc.val(st, x.Map)
		k := fc.val(st, x.Key)
		v := fc.val(st, x.Value)
		mt := x.Map.Type().Underlying().(*types.Map)
		dk, vk := fc.mapComps(mt)
		lk := "Mlen:" + types.TypeString(mt, nil)
		fc.oblige(fmt.Sprintf("nil#%d/mapupdate", fc.ord("nil")), "nil", reach, "(not (= "+m.T+" 0))", x.Pos(), "assignment to entry in nil map")
		d := fc.get(st, dk)
		had := fc.define("Bool", "(select (select "+d+" "+m.T+") "+k.T+")", "had")
		l := fc.get(st, lk)
		fc.set(st, lk, "(store "+l+" "+m.T+" (ite "+had+" (select "+l+" "+m.T+") (+ (select "+l+" "+m.T+") 1)))")
		fc.set(st, dk, "(store "+d+" "+m.T+" (store (select "+d+" "+m.T+") "+k.T+" true))")
		vv := fc.get(st, vk)
		fc.set(st, vk, "(store "+vv+" "+m.T+" (store (select "+vv+" "+m.T+") "+k.T+" "+v.T+"))")
	case *ssa.Lookup:
		fc.execLookup(x, st, reach)
	case *ssa.Extract:
		t := fc.val(st, x.Tuple)
		if x.Index >= len(t.Tuple) {
			panic(unsupported("extract from non-tuple"))
		}
		fc.vals[x] = t.Tuple[x.Index]
	case *ssa.Convert:
		fc.execConvert(x, st, reach)
	case *ssa.ChangeType:
		v := fc.val(st, x.X)
		v.Ty = x.Type()
		fc.vals[x] = v
	case *ssa.MakeInterface:
		v := fc.val(st, x.X)
		if v.LV != nil && v.T == "" {
			panic(unsupported("boxing the address of a local variable"))
		}
		_, box, _ := fc.S.Box(x.X.Type())
		fc.vals[x] = Val{T: fc.define("Iface", "("+box+" "+v.T+")", x.Name()), Ty: x.Type()}
	case *ssa.ChangeInterface:
		v := fc.val(st, x.X)
		v.Ty = x.Type()
		fc.vals[x] = v
	case *ssa.TypeAssert:
		fc.execTypeAssert(x, st, reach)
	case *ssa.MakeClosure:
		fn := x.Fn.(*ssa.Function)
		fc.vals[x] = Val{T: fc.fnID(fn), Ty: x.Type(), Fn: fn, Clo: x}
	case *ssa.RunDefers:
		fc.execRunDefers(st, reach)
	case *ssa.Defer:
		fc.execDefer(x, st, reach)
	case *ssa.DebugRef:
	case *ssa.Range:
		fc.execRange(x, st, reach)
	case *ssa.Next:
		fc.execNext(x, st, reach)
	case *ssa.Go, *ssa.Select, *ssa.Send:
		panic(unsupported(fmt.Sprintf("instruction %T", ins)))
	default:
		panic(unsupported(fmt.Sprintf("instruction %T (%s)", ins, ins)))
	}
}

func (fc *FuncCtx) mapComps(mt *types.Map) (string, string) {
	dk, vk := mapDomKey(mt), mapValKey(mt)
	ks := fc.S.SortOf(mt.Key())
	fc.registerComp(dk, "(Array Int (Array "+ks+" Bool))")
	fc.registerComp(vk, "(Array Int (Array "+ks+" "+fc.S.SortOf(mt.Elem())+"))")
	fc.registerComp("Mlen:"+types.TypeString(mt, nil), "(Array Int Int)")
	fc.compTy[vk] = mt.Elem()
	return dk, vk
}

func (fc *FuncCtx) execAlloc(x *ssa.Alloc, st *State, reach string) {
	et := x.Type().Underlying().(*types.Pointer).Elem()
	if arr, ok := et.Underlying().(*types.Array); ok && x.Heap {
		// arrays live in the element heap; the pointer is the base reference
		ek := fc.elemComp(arr.Elem())
		r := fc.allocRef(st)
		e0 := fc.get(st, ek)
		fc.set(st, ek, "(store "+e0+" "+r+" "+fc.zeroArray(arr.Elem())+")")
		fc.atFrame(arr.Elem(), e0, fc.get(st, ek), func(b, ix string) string { return "(= " + b + " " + r + ")" })
		fc.vals[x] = Val{T: r, Ty: x.Type()}
		return
	}
	if fc.escaping[x] {
		r := fc.allocRef(st)
		if stt, ok := et.Underlying().(*types.Struct); ok {
			for i := 0; i < stt.NumFields(); i++ {
				hk := fc.heapComp(et, i)
				fc.set(st, hk, "(store "+fc.get(st, hk)+" "+r+" "+fc.S.Zero(stt.Field(i).Type())+")")
			}
		} else {
			pk := fc.ptrComp(et)
			fc.set(st, pk, "(store "+fc.get(st, pk)+" "+r+" "+fc.S.Zero(et)+")")
		}
		fc.vals[x] = Val{T: r, Ty: x.Type()}
		return
	}
	key := fc.cellComp(x)
	fc.set(st, key, fc.S.Zero(et))
	fc.vals[x] = Val{Ty: x.Type(), LV: &LValue{Kind: lvCell, Cell: x, RootTy: et, Ty: et}}
}

// addrOf turns a pointer-typed value into an lvalue.
func (fc *FuncCtx) addrOf(p Val, st *State, reach string, pos token.Pos, write bool) *LValue {
	if p.LV != nil {
		return p.LV
	}
	pt, ok := p.Ty.Underlying().(*types.Pointer)
	if !ok {
		panic(unsupported("dereference of non-pointer"))
	}
	fc.oblige(fmt.Sprintf("nil#%d/deref", fc.ord("nil")), "nil", reach, "(not (= "+p.T+" 0))", pos, "nil pointer dereference")
	et := pt.Elem()
	if _, isStruct := et.Underlying().(*types.Struct); isStruct {
		// whole-struct access through a heap reference: handled by caller via loadStruct/storeStruct
		return &LValue{Kind: lvHeapField, Ref: p.T, Struct: et, Field: -1, RootTy: et, Ty: et}
	}
	key := fc.ptrComp(et)
	return &LValue{Kind: lvCell, Base: key, Ref: p.T, RootTy: et, Ty: et, Field: -2}
}

func (fc *FuncCtx) execUnOp(x *ssa.UnOp, st *State, reach string) {
	v := fc.val(st, x.X)
	switch x.Op {
	case token.MUL: // load
		lv := fc.addrOf(v, st, reach, x.Pos(), false)
		if a, ok := x.X.(*ssa.Alloc); ok {
			if fv, ok := fc.fnCells[a]; ok {
				fc.vals[x] = fv
				return
			}
		}
		t := fc.loadLV(st, lv)
		t = fc.define(fc.S.SortOf(x.Type()), t, x.Name())
		fc.assume(reach, fc.typeInv(st, t, x.Type()))
		fc.vals[x] = Val{T: t, Ty: x.Type()}
	case token.NOT:
		fc.vals[x] = Val{T: not(v.T), Ty: x.Type()}
	case token.SUB:
		if bits, signed, ok := intInfo(x.Type()); ok && bits > 0 {
			lo, _ := intRange(bits, signed)
			if signed {
				fc.oblige(fmt.Sprintf("ovf#%d", fc.ord("ovf")), "ovf", reach, "(not (= "+v.T+" "+lo+"))", x.Pos(), "negation overflow")
				fc.vals[x] = Val{T: fc.define("Int", "(- "+v.T+")", x.Name()), Ty: x.Type()}
			} else {
				fc.vals[x] = Val{T: fc.define("Int", "(mod (- "+v.T+") "+pow2(bits)+")", x.Name()), Ty: x.Type()}
			}
			return
		}
		panic(unsupported("negation of " + x.Type().String()))
	case token.XOR:
		if bits, signed, ok := intInfo(x.Type()); ok && bits > 0 {
			if signed {
				fc.vals[x] = Val{T: fc.define("Int", "(- (- "+v.T+") 1)", x.Name()), Ty: x.Type()}
			} else {
				fc.vals[x] = Val{T: fc.define("Int", "(- "+new(bigInt).setPow2(bits).subOne().String()+" "+v.T+")", x.Name()), Ty: x.Type()}
			}
			return
		}
		panic(unsupported("complement"))
	default:
		panic(unsupported("unary op " + x.Op.String()))
	}
}

// loadLV reads through an lvalue, including whole-struct loads through heap refs.
func (fc *FuncCtx) loadLV(st *State, lv *LValue) string {
	if lv.Kind == lvHeapField && lv.Field == -1 {
		stt := lv.Struct.Underlying().(*types.Struct)
		name := fc.S.SortOf(lv.Struct)
		if stt.NumFields() == 0 {
			return "mk-" + name
		}
		var parts []string
		for i := 0; i < stt.NumFields(); i++ {
			hk := fc.heapComp(lv.Struct, i)
			parts = append(parts, "(select "+fc.get(st, hk)+" "+lv.Ref+")")
		}
		root := "(mk-" + name + " " + strings.Join(parts, " ") + ")"
		return fc.applyPath(root, lv.Path)
	}
	if lv.Kind == lvCell && lv.Field == -2 { // pointer heap cell
		return fc.applyPath("(select "+fc.get(st, lv.Base)+" "+lv.Ref+")", lv.Path)
	}
	return fc.load(st, lv)
}

func (fc *FuncCtx) store(st *State, lv *LValue, v string) {
	if lv.Kind == lvHeapField && lv.Field == -1 {
		if len(lv.Path) > 0 {
			panic(unsupported("path into whole-struct heap lvalue"))
		}
		stt := lv.Struct.Underlying().(*types.Struct)
		vv := fc.define(fc.S.SortOf(lv.Struct), v, "sv")
		for i := 0; i < stt.NumFields(); i++ {
			hk := fc.heapComp(lv.Struct, i)
			sel, _ := fc.S.Field(lv.Struct, i)
			fc.set(st, hk, "(store "+fc.get(st, hk)+" "+lv.Ref+" ("+sel+" "+vv+"))")
		}
		return
	}
	if lv.Kind == lvCell && lv.Field == -2 {
		h := fc.get(st, lv.Base)
		root := "(select " + h + " " + lv.Ref + ")"
		fc.set(st, lv.Base, "(store "+h+" "+lv.Ref+" "+fc.updatePath(root, lv.Path, v)+")")
		return
	}
	fc.storePlain(st, lv, v)
}

func (fc *FuncCtx) execIndexAddr(x *ssa.IndexAddr, st *State, reach string) {
	base := fc.val(st, x.X)
	idx := fc.val(st, x.Index)
	switch u := x.X.Type().Underlying().(type) {
	case *types.Slice:
		s := base.T
		fc.oblige(fmt.Sprintf("index#%d/inbounds", fc.ord("index")), "index", reach, "(and (<= 0 "+idx.T+") (< "+idx.T+" (s-len "+s+")))", x.Pos(), "slice index in range")
		fc.vals[x] = Val{Ty: x.Type(), LV: &LValue{Kind: lvElem, Base: "(s-base " + s + ")", Idx: fc.define("Int", "(+ (s-off "+s+") "+idx.T+")", "ix"), ElemTy: u.Elem(), RootTy: u.Elem(), Ty: u.Elem(), SliceT: s, SliceI: idx.T}}
	case *types.Pointer:
		arr := u.Elem().Underlying().(*types.Array)
		fc.oblige(fmt.Sprintf("index#%d/inbounds", fc.ord("index")), "index", reach, fmt.Sprintf("(and (<= 0 %s) (< %s %d))", idx.T, idx.T, arr.Len()), x.Pos(), "array index in range")
		if base.LV != nil {
			lv := *base.LV
			lv.Path = append(append([]pathStep{}, lv.Path...), pathStep{Field: -1, Index: idx.T, Ty: u.Elem()})
			lv.Ty = arr.Elem()
			fc.vals[x] = Val{Ty: x.Type(), LV: &lv}
			return
		}
		fc.vals[x] = Val{Ty: x.Type(), LV: &LValue{Kind: lvElem, Base: base.T, Idx: idx.T, ElemTy: arr.Elem(), RootTy: arr.Elem(), Ty: arr.Elem()}}
	default:
		panic(unsupported("IndexAddr on " + x.X.Type().String()))
	}
}

func (fc *FuncCtx) execSlice(x *ssa.Slice, st *State, reach string) {
	base := fc.val(st, x.X)
	var lo, hi, mx string
	if x.Low != nil {
		lo = fc.val(st, x.Low).T
	} else {
		lo = "0"
	}
	switch u := x.X.Type().Underlying().(type) {
	case *types.Slice:
		s := base.T
		if x.High != nil {
			hi = fc.val(st, x.High).T
		} else {
			hi = "(s-len " + s + ")"
		}
		capT := "(s-cap " + s + ")"
		if x.Max != nil {
			mx = fc.val(st, x.Max).T
			fc.oblige(fmt.Sprintf("slice#%d/inbounds", fc.ord("slice")), "index", reach, "(and (<= 0 "+lo+") (<= "+lo+" "+hi+") (<= "+hi+" "+mx+") (<= "+mx+" "+capT+"))", x.Pos(), "3-index slice bounds")
		} else {
			mx = capT
			fc.oblige(fmt.Sprintf("slice#%d/inbounds", fc.ord("slice")), "index", reach, "(and (<= 0 "+lo+") (<= "+lo+" "+hi+") (<= "+hi+" "+capT+"))", x.Pos(), "slice bounds")
		}
		fc.vals[x] = Val{T: fc.define("Slice", "(mk-slice (s-base "+s+") (+ (s-off "+s+") "+lo+") (- "+hi+" "+lo+") (- "+mx+" "+lo+"))", x.Name()), Ty: x.Type()}
	case *types.Basic: // string
		s := base.T
		if x.High != nil {
			hi = fc.val(st, x.High).T
		} else {
			hi = "(strlen " + s + ")"
		}
		fc.oblige(fmt.Sprintf("slice#%d/inbounds", fc.ord("slice")), "index", reach, "(and (<= 0 "+lo+") (<= "+lo+" "+hi+") (<= "+hi+" (strlen "+s+")))", x.Pos(), "string slice bounds")
		fc.vals[x] = Val{T: fc.define("Str", "(substr "+s+" "+lo+" "+hi+")", x.Name()), Ty: x.Type()}
	case *types.Pointer: // pointer to array
		arr := u.Elem().Underlying().(*types.Array)
		if base.LV != nil {
			panic(unsupported("slicing a local array"))
		}
		if x.High != nil {
			hi = fc.val(st, x.High).T
		} else {
			hi = fmt.Sprint(arr.Len())
		}
		fc.oblige(fmt.Sprintf("slice#%d/inbounds", fc.ord("slice")), "index", reach, fmt.Sprintf("(and (<= 0 %s) (<= %s %s) (<= %s %d))", lo, lo, hi, hi, arr.Len()), x.Pos(), "array slice bounds")
		fc.vals[x] = Val{T: fc.define("Slice", fmt.Sprintf("(mk-slice %s %s (- %s %s) (- %d %s))", base.T, lo, hi, lo, arr.Len(), lo), x.Name()), Ty: x.Type()}
	default:
		panic(unsupported("Slice on " + x.X.Type().String()))
	}
}

func (fc *FuncCtx) execBinOp(x *ssa.BinOp, st *State, reach string) {
	a := fc.val(st, x.X)
	b := fc.val(st, x.Y)
	ty := x.X.Type()
	res := func(t string) {
		fc.vals[x] = Val{T: fc.define(fc.S.SortOf(x.Type()), t, x.Name()), Ty: x.Type()}
	}
	switch x.Op {
	case token.EQL, token.NEQ:
		if a.LV != nil || b.LV != nil {
			panic(unsupported("comparison of local addresses"))
		}
		var t string
		if _, isIface := ty.Underlying().(*types.Interface); isIface {
			t = "(= " + a.T + " " + b.T + ")"
		} else if _, isSlice := ty.Underlying().(*types.Slice); isSlice {
			// only comparison with nil is legal Go
			other := a
			if a.IsNil {
				other = b
			}
			t = "(= (s-base " + other.T + ") 0)"
		} else {
			t = "(= " + a.T + " " + b.T + ")"
		}
		if x.Op == token.NEQ {
			t = not(t)
		}
		res(t)
		return
	case token.LSS, token.LEQ, token.GTR, token.GEQ:
		op := map[token.Token]string{token.LSS: "<", token.LEQ: "<=", token.GTR: ">", token.GEQ: ">="}[x.Op]
		if _, _, ok := intInfo(ty); !ok {
			panic(unsupported("ordering on " + ty.String()))
		}
		res("(" + op + " " + a.T + " " + b.T + ")")
		return
	}
	bits, signed, ok := intInfo(x.Type())
	if !ok {
		if bt, isB := x.Type().Underlying().(*types.Basic); isB && bt.Info()&types.IsString != 0 && x.Op == token.ADD {
			res("(strcat " + a.T + " " + b.T + ")")
			return
		}
		if bt, isB := x.Type().Underlying().(*types.Basic); isB && bt.Info()&types.IsBoolean != 0 {
			switch x.Op {
			case token.AND, token.LAND:
				res(and(a.T, b.T))
				return
			case token.OR, token.LOR:
				res(or(a.T, b.T))
				return
			}
		}
		panic(unsupported("binary op " + x.Op.String() + " on " + x.Type().String()))
	}
	lo, hi := "", ""
	if bits > 0 {
		lo, hi = intRange(bits, signed)
	}
	arith := func(op string) {
		raw := "(" + op + " " + a.T + " " + b.T + ")"
		if bits > 0 {
			if signed {
				r := fc.define("Int", raw, x.Name())
				fc.oblige(fmt.Sprintf("ovf#%d", fc.ord("ovf")), "ovf", reach, "(and (<= "+lo+" "+r+") (<= "+r+" "+hi+"))", x.Pos(), "signed integer overflow in "+x.Op.String())
				fc.vals[x] = Val{T: r, Ty: x.Type()}
				return
			}
			// unsigned arithmetic wraps (defined behaviour)
			res("(mod " + raw + " " + pow2(bits) + ")")
			return
		}
		res(raw)
	}
	switch x.Op {
	case token.ADD:
		arith("+")
	case token.SUB:
		arith("-")
	case token.MUL:
		arith("*")
	case token.QUO:
		fc.oblige(fmt.Sprintf("div#%d", fc.ord("div")), "div", reach, "(not (= "+b.T+" 0))", x.Pos(), "division by zero")
		res("(tdiv " + a.T + " " + b.T + ")")
	case token.REM:
		fc.oblige(fmt.Sprintf("div#%d", fc.ord("div")), "div", reach, "(not (= "+b.T+" 0))", x.Pos(), "division by zero")
		res("(tmod " + a.T + " " + b.T + ")")
	case token.AND:
		if c, ok := x.Y.(*ssa.Const); ok {
			if v, ok2 := constInt(c); ok2 && v > 0 && (v&(v+1)) == 0 { // mask 2^k-1
				r := fc.define("Int", "(ite (>= "+a.T+" 0) (mod "+a.T+" "+fmt.Sprint(v+1)+") (bitand "+a.T+" "+b.T+"))", x.Name())
				fc.vals[x] = Val{T: r, Ty: x.Type()}
				return
			}
		}
		r := fc.define("Int", "(bitand "+a.T+" "+b.T+")", x.Name())
		fc.assume(reach, fc.typeInv(st, r, x.Type()))
		fc.vals[x] = Val{T: r, Ty: x.Type()}
	case token.OR, token.XOR, token.AND_NOT:
		fn := map[token.Token]string{token.OR: "bitor", token.XOR: "bitxor", token.AND_NOT: "bitxor"}[x.Op]
		r := fc.fresh("Int", x.Name())
		_ = fn
		fc.assume(reach, fc.typeInv(st, r, x.Type()))
		fc.vals[x] = Val{T: r, Ty: x.Type()}
	case token.SHL:
		if c, ok := x.Y.(*ssa.Const); ok {
			if v, ok2 := constInt(c); ok2 && v >= 0 && v < 63 {
				raw := "(* " + a.T + " " + pow2(int(v)) + ")"
				if bits > 0 {
					if signed {
						raw = "(- (mod (+ " + raw + " " + pow2(bits-1) + ") " + pow2(bits) + ") " + pow2(bits-1) + ")"
					} else {
						raw = "(mod " + raw + " " + pow2(bits) + ")"
					}
				}
				res(raw)
				return
			}
		}
		r := fc.fresh("Int", x.Name())
		fc.assume(reach, fc.typeInv(st, r, x.Type()))
		fc.vals[x] = Val{T: r, Ty: x.Type()}
	case token.SHR:
		if c, ok := x.Y.(*ssa.Const); ok {
			if v, ok2 := constInt(c); ok2 && v >= 0 && v < 63 {
				res("(div " + a.T + " " + pow2(int(v)) + ")") // floor division = arithmetic shift
				return
			}
		}
		r := fc.fresh("Int", x.Name())
		fc.assume(reach, fc.typeInv(st, r, x.Type()))
		fc.vals[x] = Val{T: r, Ty: x.Type()}
	default:
		panic(unsupported("binary op " + x.Op.String()))
	}
}

func constInt(c *ssa.Const) (int64, bool) {
	if c.Value == nil {
		return 0, false
	}
	return c.Int64(), true
}

// convInt models an integer conversion exactly (wrap-around on narrowing).
func convInt(v string, from, to types.Type) string {
	fb, fs, ok1 := intInfo(from)
	tb, ts, ok2 := intInfo(to)
	if !ok1 || !ok2 || tb == 0 {
		return v
	}
	if fb > 0 {
		// does the source range fit into the target range?
		if fs == ts && fb <= tb {
			return v
		}
		if !fs && ts && fb < tb {
			return v
		}
	}
	if ts {
		return "(- (mod (+ " + v + " " + pow2(tb-1) + ") " + pow2(tb) + ") " + pow2(tb-1) + ")"
	}
	return "(mod " + v + " " + pow2(tb) + ")"
}

func (fc *FuncCtx) execConvert(x *ssa.Convert, st *State, reach string) {
	v := fc.val(st, x.X)
	from, to := x.X.Type(), x.Type()
	_, _, fi := intInfo(from)
	_, _, ti := intInfo(to)
	switch {
	case fi && ti:
		fc.vals[x] = Val{T: fc.define("Int", convInt(v.T, from, to), x.Name()), Ty: to}
	case isString(to) && isByteSlice(from):
		// string(bytes): a fresh string determined by the byte contents
		ek := fc.elemComp(from.Underlying().(*types.Slice).Elem())
		r := fc.define("Str", "(bytes2str (select "+fc.get(st, ek)+" (s-base "+v.T+")) (s-off "+v.T+") (s-len "+v.T+"))", x.Name())
		fc.needBytes2Str()
		fc.vals[x] = Val{T: r, Ty: to}
	case isString(to) && fi:
		r := fc.fresh("Str", x.Name())
		fc.vals[x] = Val{T: r, Ty: to}
	case isString(from) && isString(to):
		v.Ty = to
		fc.vals[x] = v
	default:
		if types.Identical(from.Underlying(), to.Underlying()) {
			v.Ty = to
			fc.vals[x] = v
			return
		}
		panic(unsupported(fmt.Sprintf("conversion %s -> %s", from, to)))
	}
}

func (fc *FuncCtx) needBytes2Str() {
	if !fc.ghostDecl["bytes2str"] {
		fc.ghostDecl["bytes2str"] = true
		fc.specHdr = append(fc.specHdr, "(declare-fun bytes2str ((Array Int Int) Int Int) Str)")
		fc.specHdr = append(fc.specHdr, "(assert (forall ((a (Array Int Int)) (o Int) (n Int)) (! (=> (>= n 0) (= (strlen (bytes2str a o n)) n)) :pattern ((bytes2str a o n)))))")
	}
}

func isString(t types.Type) bool {
	b, ok := t.Underlying().(*types.Basic)
	return ok && b.Info()&types.IsString != 0
}

func isByteSlice(t types.Type) bool {
	s, ok := t.Underlying().(*types.Slice)
	if !ok {
		return false
	}
	b, ok := s.Elem().Underlying().(*types.Basic)
	return ok && b.Kind() == types.Uint8
}

func (fc *FuncCtx) execLookup(x *ssa.Lookup, st *State, reach string) {
	m := fc.val(st, x.X)
	k := fc.val(st, x.Index)
	switch u := x.X.Type().Underlying().(type) {
	case *types.Map:
		dk, vk := fc.mapComps(u)
		in := fc.define("Bool", "(and (not (= "+m.T+" 0)) (select (select "+fc.get(st, dk)+" "+m.T+") "+k.T+"))", "inmap")
		raw := "(select (select " + fc.get(st, vk) + " " + m.T + ") " + k.T + ")"
		v := fc.define(fc.S.SortOf(u.Elem()), "(ite "+in+" "+raw+" "+fc.S.Zero(u.Elem())+")", x.Name())
		fc.assume(reach, fc.typeInv(st, v, u.Elem()))
		if x.CommaOk {
			fc.vals[x] = Val{Ty: x.Type(), Tuple: []Val{{T: v, Ty: u.Elem()}, {T: in, Ty: types.Typ[types.Bool]}}}
		} else {
			fc.vals[x] = Val{T: v, Ty: u.Elem()}
		}
	case *types.Basic: // string index
		fc.oblige(fmt.Sprintf("index#%d/inbounds", fc.ord("index")), "index", reach, "(and (<= 0 "+k.T+") (< "+k.T+" (strlen "+m.T+")))", x.Pos(), "string index in range")
		fc.vals[x] = Val{T: fc.define("Int", "(strbyte "+m.T+" "+k.T+")", x.Name()), Ty: x.Type()}
	default:
		panic(unsupported("Lookup on " + x.X.Type().String()))
	}
}

func (fc *FuncCtx) execTypeAssert(x *ssa.TypeAssert, st *State, reach string) {
	v := fc.val(st, x.X)
	if _, isIface := x.AssertedType.Underlying().(*types.Interface); isIface {
		// assertion to an interface type: succeeds iff the dynamic type implements it
		fc.needImplements()
		id := fc.V.typeID(x.AssertedType)
		ok := fc.define("Bool", fmt.Sprintf("(implements (dyntype %s) %d)", v.T, id), "implok")
		if x.CommaOk {
			fc.vals[x] = Val{Ty: x.Type(), Tuple: []Val{{T: "(ite " + ok + " " + v.T + " iface_nil)", Ty: x.AssertedType}, {T: ok, Ty: types.Typ[types.Bool]}}}
		} else {
			fc.oblige(fmt.Sprintf("typeassert#%d", fc.ord("typeassert")), "typeassert", reach, ok, x.Pos(), "interface conversion must succeed")
			fc.vals[x] = Val{T: v.T, Ty: x.AssertedType}
		}
		return
	}
	tag, _, unbox := fc.S.Box(x.AssertedType)
	ok := fc.define("Bool", fmt.Sprintf("(= (dyntype %s) %d)", v.T, tag), "taok")
	so := fc.S.SortOf(x.AssertedType)
	if x.CommaOk {
		val := fc.define(so, "(ite "+ok+" ("+unbox+" "+v.T+") "+fc.S.Zero(x.AssertedType)+")", x.Name())
		fc.assume(reach, fc.typeInv(st, val, x.AssertedType))
		fc.vals[x] = Val{Ty: x.Type(), Tuple: []Val{{T: val, Ty: x.AssertedType}, {T: ok, Ty: types.Typ[types.Bool]}}}
		return
	}
	fc.oblige(fmt.Sprintf("typeassert#%d", fc.ord("typeassert")), "typeassert", reach, ok, x.Pos(), "type assertion must succeed: "+x.AssertedType.String())
	val := fc.define(so, "("+unbox+" "+v.T+")", x.Name())
	fc.assume(and(reach, ok), fc.typeInv(st, val, x.AssertedType))
	fc.vals[x] = Val{T: val, Ty: x.AssertedType}
}

func (fc *FuncCtx) needImplements() {
	if !fc.ghostDecl["implements"] {
		fc.ghostDecl["implements"] = true
		fc.specHdr = append(fc.specHdr, "(declare-fun implements (Int Int) Bool)")
	}
}

// Range / Next: only strings and maps are iterated this way in SSA.
// A map or string iteration is abstracted: each Next yields "done" or some element of the
// collection, with no memory of earlier elements (an over-approximation of every
// iteration order; with it nothing can be proved about the order, which is the point).
func (fc *FuncCtx) execRange(x *ssa.Range, st *State, reach string) {
	fc.vals[x] = fc.val(st, x.X)
}

func (fc *FuncCtx) execNext(x *ssa.Next, st *State, reach string) {
	rg, ok := x.Iter.(*ssa.Range)
	if !ok {
		panic(unsupported("next on an unknown iterator"))
	}
	coll := fc.val(st, rg.X)
	okT := fc.fresh("Bool", "next_ok")
	tup := x.Type().(*types.Tuple)
	switch u := rg.X.Type().Underlying().(type) {
	case *types.Map:
		dk, vk := fc.mapComps(u)
		k := fc.fresh(fc.S.SortOf(u.Key()), "next_k")
		fc.assume(reach, fc.typeInv(st, k, u.Key()))
		fc.assume(reach, implies(okT, "(and (not (= "+coll.T+" 0)) (select (select "+fc.get(st, dk)+" "+coll.T+") "+k+"))"))
		v := fc.define(fc.S.SortOf(u.Elem()), "(select (select "+fc.get(st, vk)+" "+coll.T+") "+k+")", "next_v")
		fc.assume(reach, implies(okT, fc.typeInv(st, v, u.Elem())))
		fc.vals[x] = Val{Ty: tup, Tuple: []Val{{T: okT, Ty: types.Typ[types.Bool]}, {T: k, Ty: u.Key()}, {T: v, Ty: u.Elem()}}}
	case *types.Basic: // string
		i := fc.fresh("Int", "next_i")
		r := fc.fresh("Int", "next_r")
		fc.assume(reach, implies(okT, "(and (<= 0 "+i+") (< "+i+" (strlen "+coll.T+")) (<= 0 "+r+") (<= "+r+" 1114111))"))
		fc.vals[x] = Val{Ty: tup, Tuple: []Val{{T: okT, Ty: types.Typ[types.Bool]}, {T: i, Ty: types.Typ[types.Int]}, {T: r, Ty: types.Typ[types.Rune]}}}
	default:
		panic(unsupported("range over " + rg.X.Type().String()))
	}
}

// ---- defer ---------------------------------------------------------------------------------
//
// A deferred call (never inside a loop, no recover) is recorded with the values its
// operands have at the defer statement and the condition under which the statement was
// reached; at every `rundefers` the recorded calls run in reverse order, each under its
// condition.

type deferRec struct {
	ins    *ssa.Defer
	armed  string
	recv   Val
	callee Val
	args   []Val
	binds  []Val
}

func (fc *FuncCtx) execDefer(x *ssa.Defer, st *State, reach string) {
	d := deferRec{ins: x, armed: fc.define("Bool", reach, "armed")}
	c := &x.Call
	if c.IsInvoke() {
		d.recv = fc.val(st, c.Value)
	} else if _, isB := c.Value.(*ssa.Builtin); !isB {
		d.callee = fc.val(st, c.Value)
		if d.callee.Clo != nil {
			for _, b := range d.callee.Clo.Bindings {
				d.binds = append(d.binds, fc.val(st, b))
			}
		}
	}
	for _, a := range c.Args {
		d.args = append(d.args, fc.val(st, a))
	}
	fc.defers = append(fc.defers, d)
}

func (fc *FuncCtx) execRunDefers(st *State, reach string) {
	for i := len(fc.defers) - 1; i >= 0; i-- {
		d := fc.defers[i]
		c := &d.ins.Call
		cond := and(reach, d.armed)
		if cond == "false" {
			continue
		}
		pre := st.clone()
		switch {
		case c.IsInvoke():
			site := fc.siteKey("defer." + c.Method.Name())
			fc.oblige(fmt.Sprintf("call.%s/nonnil", site), "nil", cond, "(not (= "+d.recv.T+" iface_nil))", d.ins.Pos(), "deferred method call on nil interface")
			fc.noteAssumption(fmt.Sprintf("deferred interface method call %s (%s): treated as arbitrary code", c.Method.Name(), site))
			fc.havocForArbitraryCall(append([]Val{d.recv}, d.args...), nil, st, cond)
		case d.callee.Fn != nil:
			fc.callFunction(nil, d.callee.Fn, d.args, d.binds, st, cond)
		default:
			if _, isB := c.Value.(*ssa.Builtin); isB {
				panic(unsupported("deferred builtin"))
			}
			fc.noteAssumption("deferred call through a function value: treated as arbitrary code")
			fc.havocForArbitraryCall(d.args, nil, st, cond)
		}
		if d.armed == "true" {
			continue
		}
		// the call ran only if the defer statement had been reached
		var keys []string
		seen := map[string]bool{}
		for k := range st.m {
			keys = append(keys, k)
			seen[k] = true
		}
		for k := range pre.m {
			if !seen[k] {
				keys = append(keys, k)
			}
		}
		sort.Strings(keys)
		for _, k := range keys {
			if _, reg := fc.compSort[k]; !reg {
				continue
			}
			after, before := fc.get(st, k), fc.get(pre, k)
			if after == before {
				continue
			}
			so := fc.compSort[k]
			t := "(ite " + d.armed + " " + after + " " + before + ")"
			if strings.HasPrefix(so, "(Array") {
				n := fc.fresh(so, "d_"+shortKey(k))
				fc.emit("(assert (= " + n + " " + t + "))")
				st.m[k] = n
			} else {
				st.m[k] = fc.define(so, t, "d_"+shortKey(k))
			}
		}
	}
}
