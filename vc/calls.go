package vc

import (
	"fmt"
	"go/token"
	"go/types"
	"sort"
	"strings"

	"golang.org/x/tools/go/ssa"
)

// ---- modifies clauses -----------------------------------------------------------

// modLoc is one location set named by a modifies entry, evaluated in the pre-state.
type modLoc struct {
	comp  string // component key
	kind  string // "field" (ref), "elems" (base, lo, hi), "allelems" (base), "map" (ref), "all", "cell"
	ref   string
	base  string
	lo    string
	hi    string
	cell  *LValue // by-reference local (whole or path)
	field int
	cond  string // optional guard (pre-state)
}

// parseModifies evaluates the modifies entries of a contract in env (pre-state).
func (fc *FuncCtx) parseModifies(env *Env, entries []string) []modLoc {
	var out []modLoc
	for _, ent := range entries {
		one := fc.parseModifies1(env, ent)
		out = append(out, one...)
	}
	return out
}

func (fc *FuncCtx) parseModifies1(env *Env, ent0 string) []modLoc {
	var out []modLoc
	condG := ""
	defer func() {
		if condG != "" {
			for i := range out {
				out[i].cond = condG
			}
		}
	}()
	for _, ent := range []string{ent0} {
		ent = strings.TrimSpace(ent)
		if ent == "" || ent == "nothing" {
			continue
		}
		cond := ""
		if k := strings.Index(ent, " if "); k > 0 {
			ce, err := ParseExpr(ent[k+4:])
			if err != nil {
				specFail("modifies %s: %v", ent, err)
			}
			cond = fc.evalBool(env, ce)
			condG = cond
			ent = strings.TrimSpace(ent[:k])
		}
		whole := false
		if strings.HasSuffix(ent, "[*]") {
			whole = true
			ent = strings.TrimSuffix(ent, "[*]")
		}
		if strings.HasPrefix(ent, "elems(") && strings.HasSuffix(ent, ")") {
			tx, err := parseTypeText(ent[6 : len(ent)-1])
			if err != nil {
				specFail("modifies %s: %v", ent, err)
			}
			t := fc.resolveType(tx, env.pkg)
			out = append(out, modLoc{comp: fc.elemComp(t), kind: "all"})
			continue
		}
		if strings.HasPrefix(ent, "fields(") && strings.HasSuffix(ent, ")") {
			// fields(T.f) or fields(T)
			inner := ent[7 : len(ent)-1]
			fld := ""
			var t types.Type
			if te, err := parseTypeText(inner); err == nil {
				if tt, ok := fc.tryResolveType(te, env.pkg); ok {
					if _, isSt := tt.Underlying().(*types.Struct); isSt {
						t = tt
					}
				}
			}
			if t == nil {
				k := strings.LastIndex(inner, ".")
				if k < 0 {
					specFail("modifies %s: unknown struct type", ent)
				}
				te, err := parseTypeText(inner[:k])
				if err != nil {
					specFail("modifies %s: %v", ent, err)
				}
				t = fc.resolveType(te, env.pkg)
				fld = inner[k+1:]
			}
			stt, ok := t.Underlying().(*types.Struct)
			if !ok {
				specFail("modifies %s: not a struct type", ent)
			}
			for i := 0; i < stt.NumFields(); i++ {
				if fld == "" || stt.Field(i).Name() == fld {
					out = append(out, modLoc{comp: fc.heapComp(t, i), kind: "all"})
				}
			}
			continue
		}
		if strings.HasPrefix(ent, "maps(") && strings.HasSuffix(ent, ")") {
			e, err := ParseExpr(ent[5 : len(ent)-1])
			if err != nil {
				specFail("modifies %s: %v", ent, err)
			}
			v := fc.eval(env, e)
			mt, ok := v.Ty.Underlying().(*types.Map)
			if !ok {
				specFail("modifies %s: not a map", ent)
			}
			dk, vk := fc.mapComps(mt)
			for _, k := range []string{dk, vk, "Mlen:" + types.TypeString(mt, nil)} {
				out = append(out, modLoc{comp: k, kind: "map", ref: v.T})
			}
			continue
		}
		e, err := ParseExpr(ent)
		if err != nil {
			specFail("modifies %s: %v", ent, err)
		}
		if un, ok := e.(EUn); ok && un.Op == "*" {
			// *p : all fields of the struct p points to
			v := fc.eval(env, un.X)
			if v.LV != nil && v.T == "" {
				out = append(out, modLoc{kind: "cell", cell: v.LV, field: -1})
				continue
			}
			stt, ok := derefStruct(v.Ty)
			if !ok {
				if pt, isPtr := v.Ty.Underlying().(*types.Pointer); isPtr {
					out = append(out, modLoc{comp: fc.ptrComp(pt.Elem()), kind: "field", ref: v.T})
					continue
				}
				specFail("modifies %s: not a pointer", ent)
			}
			for i := 0; i < stt.Underlying().(*types.Struct).NumFields(); i++ {
				out = append(out, modLoc{comp: fc.heapComp(stt, i), kind: "field", ref: v.T})
			}
			continue
		}
		if whole {
			v := fc.eval(env, e)
			if v.LV != nil && v.T == "" {
				v = Val{T: fc.loadLV(env.st, v.LV), Ty: v.LV.Ty}
			}
			switch u := v.Ty.Underlying().(type) {
			case *types.Slice:
				out = append(out, modLoc{comp: fc.elemComp(u.Elem()), kind: "allelems", base: "(s-base " + v.T + ")"})
			case *types.Map:
				dk, vk := fc.mapComps(u)
				for _, k := range []string{dk, vk, "Mlen:" + types.TypeString(u, nil)} {
					out = append(out, modLoc{comp: k, kind: "map", ref: v.T})
				}
			default:
				specFail("modifies %s[*]: not a slice or map", ent)
			}
			continue
		}
		switch x := e.(type) {
		case ESel:
			v := fc.eval(env, x.X)
			if v.LV != nil && v.T == "" {
				i, ok := fc.S.FieldByName(v.LV.Ty, x.Name)
				if !ok {
					specFail("modifies %s: no such field", ent)
				}
				out = append(out, modLoc{kind: "cell", cell: v.LV, field: i})
				continue
			}
			stt, ok := derefStruct(v.Ty)
			if !ok {
				specFail("modifies %s: not a field of a pointer", ent)
			}
			path, _, ok := fc.S.PromotedPath(stt, x.Name)
			if !ok {
				specFail("modifies %s: no such field", ent)
			}
			// a promoted field is part of the embedded struct value: the whole embedded field is the location
			out = append(out, modLoc{comp: fc.heapComp(stt, path[0]), kind: "field", ref: v.T})
		case EIndex:
			v := fc.eval(env, x.X)
			u, ok := v.Ty.Underlying().(*types.Slice)
			if !ok {
				specFail("modifies %s: not a slice element", ent)
			}
			i := fc.evalInt(env, x.I)
			idx := "(+ (s-off " + v.T + ") " + i + ")"
			out = append(out, modLoc{comp: fc.elemComp(u.Elem()), kind: "elems", base: "(s-base " + v.T + ")", lo: idx, hi: "(+ " + idx + " 1)"})
		case ESlice:
			v := fc.eval(env, x.X)
			u, ok := v.Ty.Underlying().(*types.Slice)
			if !ok {
				specFail("modifies %s: not a slice range", ent)
			}
			lo, hi := "0", "(s-len "+v.T+")"
			if x.Lo != nil {
				lo = fc.evalInt(env, x.Lo)
			}
			if x.Hi != nil {
				hi = fc.evalInt(env, x.Hi)
			}
			out = append(out, modLoc{comp: fc.elemComp(u.Elem()), kind: "elems", base: "(s-base " + v.T + ")", lo: "(+ (s-off " + v.T + ") " + lo + ")", hi: "(+ (s-off " + v.T + ") " + hi + ")"})
		case EIdent:
			if lv, ok := env.freeLV[x.Name]; ok {
				out = append(out, modLoc{kind: "cell", cell: lv, field: -1})
				continue
			}
			// a local variable of the function under verification (call-site modifies)
			if env.at != nil {
				if a := fc.resolveLocal(x.Name, env.at); a != nil && !fc.escaping[a] {
					et := a.Type().Underlying().(*types.Pointer).Elem()
					out = append(out, modLoc{kind: "cell", cell: &LValue{Kind: lvCell, Cell: a, RootTy: et, Ty: et}, field: -1})
					continue
				}
			}
			v := fc.eval(env, x)
			if v.LV != nil && v.T == "" {
				out = append(out, modLoc{kind: "cell", cell: v.LV, field: -1})
				continue
			}
			specFail("modifies %s: not a location", ent)
		default:
			specFail("modifies %s: unsupported location", ent)
		}
	}
	return out
}

func (fc *FuncCtx) tryResolveType(te TypeExpr, pkg *types.Package) (t types.Type, ok bool) {
	defer func() {
		if r := recover(); r != nil {
			if _, is := r.(specErr); is {
				ok = false
				return
			}
			panic(r)
		}
	}()
	return fc.resolveType(te, pkg), true
}

// frameFormula: "component key agrees between states a and b on every location
// allocated before `next0` that is not named by locs".
func (fc *FuncCtx) frameFormula(key string, a, b *State, next0 string, locs []modLoc) string {
	ta, tb := fc.get(a, key), fc.get(b, key)
	if ta == tb {
		return "true"
	}
	var mine []modLoc
	for _, l := range locs {
		if l.comp == key {
			if l.kind == "all" {
				return "true"
			}
			mine = append(mine, l)
		}
	}
	fc.nfresh++
	r := fmt.Sprintf("fr?%d", fc.nfresh)
	switch {
	case strings.HasPrefix(key, "E:"):
		i := fmt.Sprintf("fi?%d", fc.nfresh)
		var ex []string
		allWholeOrNone := true
		for _, l := range mine {
			switch l.kind {
			case "allelems":
				ex = append(ex, and(l.cond, "(= "+r+" "+l.base+")"))
			case "elems":
				allWholeOrNone = false
				ex = append(ex, and(l.cond, "(and (= "+r+" "+l.base+") (<= "+l.lo+" "+i+") (< "+i+" "+l.hi+"))"))
			}
		}
		if allWholeOrNone && false {
			return "(forall ((" + r + " Int)) (! (=> " + and("(< "+r+" "+next0+")", not(or(ex...))) + " (= (select " + tb + " " + r + ") (select " + ta + " " + r + "))) :pattern ((select " + tb + " " + r + "))))"
		}
		return "(forall ((" + r + " Int) (" + i + " Int)) (! (=> " + and("(< "+r+" "+next0+")", not(or(ex...))) + " (= (select (select " + tb + " " + r + ") " + i + ") (select (select " + ta + " " + r + ") " + i + "))) :pattern ((select (select " + tb + " " + r + ") " + i + "))))"
	case strings.HasPrefix(key, "H:"), strings.HasPrefix(key, "M"), strings.HasPrefix(key, "P:"):
		var ex []string
		for _, l := range mine {
			ex = append(ex, and(l.cond, "(= "+r+" "+l.ref+")"))
		}
		return "(forall ((" + r + " Int)) (! (=> " + and("(< "+r+" "+next0+")", not(or(ex...))) + " (= (select " + tb + " " + r + ") (select " + ta + " " + r + "))) :pattern ((select " + tb + " " + r + "))))"
	case key == nextKey:
		return "true"
	case strings.HasPrefix(key, "G:"):
		return "(= " + ta + " " + tb + ")"
	}
	return "true"
}

// atFrameFormula is the accessor-level consequence of frameFormula for an element heap.
func (fc *FuncCtx) atFrameFormula(key string, a, b *State, next0 string, locs []modLoc) string {
	ta, tb := fc.get(a, key), fc.get(b, key)
	if ta == tb {
		return "true"
	}
	et := fc.compTy[key]
	fc.nfresh++
	sv, iv := fmt.Sprintf("fs?%d", fc.nfresh), fmt.Sprintf("fj?%d", fc.nfresh)
	bs, ix := "(s-base "+sv+")", "(+ (s-off "+sv+") "+iv+")"
	var ex []string
	for _, l := range locs {
		if l.comp != key {
			continue
		}
		switch l.kind {
		case "all":
			return "true"
		case "allelems":
			ex = append(ex, and(l.cond, "(= "+bs+" "+l.base+")"))
		case "elems":
			ex = append(ex, and(l.cond, "(and (= "+bs+" "+l.base+") (<= "+l.lo+" "+ix+") (< "+ix+" "+l.hi+"))"))
		}
	}
	a1, a0 := fc.at(et, tb, sv, iv), fc.at(et, ta, sv, iv)
	return "(forall ((" + sv + " Slice) (" + iv + " Int)) (! (=> " + and("(< "+bs+" "+next0+")", not(or(ex...))) + " (= " + a1 + " " + a0 + ")) :pattern (" + a1 + ") :pattern (" + a0 + ")))"
}

func (fc *FuncCtx) frameObligations(st *State, reach, suffix string, pos token.Pos) {
	if fc.C == nil || fc.skip["frame"] {
		return
	}
	env := fc.funcEnv(fc.init)
	env.st = fc.init
	locs := fc.parseModifies(env, fc.C.Modifies)
	var keys []string
	for k := range fc.touched {
		keys = append(keys, k)
	}
	sort.Strings(keys)
	next0 := fc.next(fc.init)
	for _, k := range keys {
		if strings.HasPrefix(k, "cell:") || k == nextKey || strings.HasPrefix(k, "free:") {
			if strings.HasPrefix(k, "free:") {
				// captured variable of the enclosing function: must be listed
				listed := false
				for _, m := range fc.C.Modifies {
					if "free:"+strings.TrimSpace(m) == k {
						listed = true
					}
				}
				if !listed && fc.get(st, k) != fc.get(fc.init, k) {
					fc.oblige("frame/"+sanitize(k)+suffix, "frame", reach, "(= "+fc.get(st, k)+" "+fc.get(fc.init, k)+")", pos, "captured variable not in modifies")
				}
			}
			continue
		}
		g := fc.frameFormula(k, fc.init, st, next0, locs)
		if g == "true" {
			continue
		}
		fc.oblige("frame/"+sanitize(shortKey(k))+suffix, "frame", reach, g, pos, "only locations listed in modifies may change: "+k)
	}
}

// ---- calls ------------------------------------------------------------------------

func (fc *FuncCtx) callArgs(st *State, c *ssa.CallCommon) []Val {
	var args []Val
	for _, a := range c.Args {
		args = append(args, fc.val(st, a))
	}
	return args
}

func (fc *FuncCtx) execCall(x *ssa.Call, st *State, reach string) {
	c := &x.Call
	if b, ok := c.Value.(*ssa.Builtin); ok {
		fc.execBuiltin(x, b, st, reach)
		return
	}
	if c.IsInvoke() {
		fc.execInvoke(x, st, reach)
		return
	}
	callee := fc.val(st, c.Value)
	args := fc.callArgs(st, c)
	if callee.Fn == nil {
		// call through a function-typed parameter?
		if pn := fc.paramOfValue(c.Value); pn != "" {
			fc.execParamCall(x, pn, args, st, reach)
			return
		}
		// a function value of unknown origin: arbitrary code
		site := fc.siteKey("funcvalue")
		fc.oblige(fmt.Sprintf("call.%s/nonnil", site), "nil", reach, "(not (= "+callee.T+" 0))", x.Pos(), "call of nil function")
		fc.noteAssumption(fmt.Sprintf("call through a function value (%s): treated as arbitrary code", site))
		fc.havocForArbitraryCall(args, nil, st, reach)
		fc.vals[x] = fc.arbitraryResults(c.Signature(), st, reach)
		return
	}
	fn := callee.Fn
	var bindings []Val
	if callee.Clo != nil {
		for _, b := range callee.Clo.Bindings {
			bindings = append(bindings, fc.val(st, b))
		}
	}
	res := fc.callFunction(x, fn, args, bindings, st, reach)
	fc.vals[x] = res
}

// paramOfValue reports the name of the function-typed parameter a value was loaded from.
func (fc *FuncCtx) paramOfValue(v ssa.Value) string {
	switch x := v.(type) {
	case *ssa.Parameter:
		return x.Name()
	case *ssa.UnOp:
		if a, ok := x.X.(*ssa.Alloc); ok {
			if p, ok := fc.paramCell[a]; ok {
				return p
			}
		}
		if fv, ok := x.X.(*ssa.FreeVar); ok {
			return fv.Name()
		}
	case *ssa.FreeVar:
		return x.Name()
	}
	return ""
}

func (fc *FuncCtx) siteKey(fn string) string {
	n := fc.callOrd[fn]
	fc.callOrd[fn] = n + 1
	return fmt.Sprintf("%s#%d", fn, n)
}

func shortFuncName(fn *ssa.Function) string {
	if fn.Origin() != nil {
		fn = fn.Origin()
	}
	name := fn.Name()
	if recv := fn.Signature.Recv(); recv != nil {
		t := recv.Type()
		if p, ok := t.(*types.Pointer); ok {
			t = p.Elem()
		}
		if n, ok := t.(*types.Named); ok {
			return n.Obj().Name() + "." + name
		}
	}
	return name
}

func (fc *FuncCtx) callFunction(x *ssa.Call, fn *ssa.Function, args []Val, bindings []Val, st *State, reach string) Val {
	short := shortFuncName(fn)
	site := fc.siteKey(short)
	name := "call." + site
	var pos token.Pos
	if x != nil {
		pos = x.Pos()
	}
	ct := fc.V.contractFor(fn)
	var ss *SiteSpec
	if fc.C != nil {
		ss = fc.C.Sites[site]
		if ss == nil && fn.Signature.Recv() != nil {
			// runtime contracts do not know the name of the user's parser type: "call @.method n ..."
			if i := strings.Index(site, "."); i >= 0 {
				ss = fc.C.Sites["@"+site[i:]]
			}
		}
	}
	sig := fn.Signature
	nres := sig.Results().Len()

	mkResults := func(post *State, pure string) []Val {
		var rs []Val
		for i := 0; i < nres; i++ {
			rt := sig.Results().At(i).Type()
			var t string
			if pure != "" && nres == 1 {
				t = fc.define(fc.S.SortOf(rt), pure, "res")
			} else {
				t = fc.fresh(fc.S.SortOf(rt), "res_"+sanitize(fn.Name()))
			}
			fc.assume(reach, fc.typeInv(post, t, rt))
			rs = append(rs, Val{T: t, Ty: rt})
		}
		return rs
	}
	pack := func(rs []Val) Val {
		switch len(rs) {
		case 0:
			return Val{Ty: sig.Results()}
		case 1:
			return rs[0]
		}
		return Val{Ty: sig.Results(), Tuple: rs}
	}

	if ct == nil && ss == nil && x != nil && fc.canInline(fn) {
		if v, ok := fc.inlineCall(x, fn, args, bindings, st, reach, site); ok {
			return v
		}
	}
	if ct == nil && ss == nil {
		fc.noteAssumption(fmt.Sprintf("call to %s (%s) has no contract: treated as arbitrary code (writes any heap location, returns any value)", fn.String(), site))
		fc.havocForArbitraryCall(args, bindings, st, reach)
		return pack(mkResults(st, ""))
	}

	if ss != nil && len(ss.Hints) > 0 && x != nil {
		fc.applyHints(fc.bodyEnv(st, x.Block()), ss.Hints, name+"/hint%d", reach)
	}
	pre := st.clone()
	var env *Env
	if ct != nil {
		env = &Env{fc: fc, vars: map[string]Val{}, lets: map[string]Expr{}, st: pre, old: pre, pkg: fc.V.typesPkg(ct.Pkg)}
		if env.pkg == nil && fn.Pkg != nil {
			env.pkg = fn.Pkg.Pkg
		}
		for i, p := range fn.Params {
			if i < len(args) {
				env.vars[p.Name()] = args[i]
			}
		}
		// positional names for wildcard contracts: recv, arg0.., nargs
		first := 0
		if fn.Signature.Recv() != nil && len(args) > 0 {
			env.vars["recv"] = args[0]
			first = 1
		}
		for i := first; i < len(args); i++ {
			env.vars[fmt.Sprintf("arg%d", i-first)] = args[i]
		}
		env.vars["nargs"] = mathInt(fmt.Sprint(len(args) - first))
		for i, fv := range fn.FreeVars {
			if i < len(bindings) {
				b := bindings[i]
				if b.LV != nil && b.T == "" {
					// a captured variable: its name denotes the current value; the
					// variable itself can be named in modifies
					if env.freeLV == nil {
						env.freeLV = map[string]*LValue{}
					}
					env.freeLV[fv.Name()] = b.LV
					if fvv, ok := fc.fnCellOfLV(b.LV); ok {
						env.vars[fv.Name()] = fvv
					} else {
						env.vars[fv.Name()] = Val{T: fc.loadLV(pre, b.LV), Ty: b.LV.Ty}
					}
				} else {
					env.vars[fv.Name()] = b
				}
			}
		}
		for _, l := range ct.Lets {
			env.lets[l.Name] = l.E
		}
		fc.withTypeArgs(fn, func() {
			for j, r := range ct.Requires {
				g, ok := fc.tryEvalBool(env, r.E)
				if !ok {
					continue // names an argument this call does not have (wildcard contracts)
				}
				fc.oblige(fmt.Sprintf("%s/pre%d", name, j), "pre", reach, g, pos, r.Text)
			}
		})
		if ct.Decr != nil && fn == fc.Fn && fc.C != nil && fc.C.Decr != nil {
			var callerM, calleeM string
			fc.withTypeArgs(fn, func() {
				calleeM = fc.evalInt(env, ct.Decr.E)
				ce := fc.funcEnv(fc.init)
				ce.st = fc.init
				callerM = fc.evalInt(ce, fc.C.Decr.E)
			})
			fc.oblige(fmt.Sprintf("%s/decreases", name), "decreases", reach, "(and (<= 0 "+callerM+") (< "+calleeM+" "+callerM+"))", pos, "recursion measure decreases")
		}
	} else {
		env = fc.bodyEnv(pre, x.Block())
	}
	if ss != nil {
		benv := fc.bodyEnv(pre, x.Block())
		// the actual arguments are visible as recv, arg0, arg1, ...
		first := 0
		if fn.Signature.Recv() != nil && len(args) > 0 {
			benv.vars["recv"] = args[0]
			first = 1
		}
		for i := first; i < len(args); i++ {
			benv.vars[fmt.Sprintf("arg%d", i-first)] = args[i]
		}
		for j, r := range ss.Requires {
			fc.oblige(fmt.Sprintf("%s/sitepre%d", name, j), "pre", reach, fc.evalBool(benv, r.E), pos, r.Text)
		}
	}

	// effects
	var entries []string
	var news []string
	pureTerm := ""
	if ct != nil {
		entries = append(entries, ct.Modifies...)
		news = ct.News
		if ct.Pure {
			pureTerm = fc.pureApp(fn, args)
		}
	}
	var locs []modLoc
	fc.withTypeArgs(fn, func() { locs = fc.parseModifies(env, entries) })
	if ss != nil {
		benv := fc.bodyEnv(pre, x.Block())
		locs = append(locs, fc.parseModifies(benv, ss.Modifies)...)
	}
	_ = news
	fc.applyEffects(st, pre, locs, reach, ct == nil || !ct.Pure)

	rs := mkResults(st, pureTerm)
	if ct != nil {
		penv := env.clone()
		penv.st = st
		penv.old = pre
		for i, r := range rs {
			penv.vars[fmt.Sprintf("result%d", i)] = r
		}
		if len(rs) > 0 {
			penv.vars["result"] = rs[0]
		}
		for i := 0; i < nres; i++ {
			if n := sig.Results().At(i).Name(); n != "" && n != "_" {
				penv.vars[n] = rs[i]
			}
		}
		fc.withTypeArgs(fn, func() {
			for _, e := range ct.Ensures {
				fc.assume(reach, fc.evalBool(penv, e.E))
			}
		})
		if ct.Trusted && len(ct.Ensures) > 0 {
			fc.probe(fmt.Sprintf("vacuity/after-%s", site), reach)
		}
		if ct.Trusted {
			fc.noteAssumption(fmt.Sprintf("trusted contract of %s (%s:%d)", fn.String(), relFile(ct.File), ct.Line))
		}
	}
	if ss != nil {
		benv := fc.bodyEnv(st, x.Block())
		benv.old = pre
		// old() inside a call-site assumption refers to the state just before the call
		for i, r := range rs {
			benv.vars[fmt.Sprintf("result%d", i)] = r
		}
		if len(rs) > 0 {
			benv.vars["result"] = rs[0]
		}
		for _, a := range ss.Assumes {
			fc.assume(reach, fc.evalBool(benv, a.E))
			fc.noteAssumption(fmt.Sprintf("assumed at call site %s of %s: %s (%s:%d)", site, fc.Key, a.Text, relFile(a.File), a.Line))
		}
		if len(ss.Assumes) > 0 {
			fc.probe(fmt.Sprintf("vacuity/after-%s", site), reach)
		}
	}
	return pack(rs)
}


// havocForArbitraryCall: the effect of code about which nothing is known. Every heap
// component, every global and every local whose address is passed (directly or through a
// closure) may be written.
func (fc *FuncCtx) havocForArbitraryCall(args []Val, bindings []Val, st *State, reach string) {
	fc.sawUnknownCall = true
	old := fc.next(st)
	n := fc.fresh("Int", "next_u")
	fc.emit("(assert (>= " + n + " " + old + "))")
	st.m[nextKey] = n
	fc.touched[nextKey] = true
	var keys []string
	for k := range st.m {
		if heapLikeKey(k) {
			keys = append(keys, k)
		}
	}
	for k := range fc.compSort {
		if heapLikeKey(k) {
			if _, ok := st.m[k]; !ok {
				keys = append(keys, k)
			}
		}
	}
	sort.Strings(keys)
	for _, k := range keys {
		st.m[k] = fc.fresh(fc.compSort[k], "u_"+shortKey(k))
		fc.touched[k] = true
	}
	reachable := append(append([]Val{}, args...), bindings...)
	for _, a := range args {
		if a.Clo != nil { // a closure handed to arbitrary code may be called: its captured variables may be written
			for _, b := range a.Clo.Bindings {
				reachable = append(reachable, fc.val(st, b))
			}
		}
	}
	for _, a := range reachable {
		if a.LV != nil && a.LV.Kind == lvCell {
			lv := *a.LV
			nv := fc.fresh(fc.S.SortOf(lv.Ty), "byref")
			fc.store(st, &lv, nv)
			fc.assume(reach, fc.typeInv(st, nv, lv.Ty))
		}
	}
}

// arbitraryResults: fresh values of the result types of sig.
func (fc *FuncCtx) arbitraryResults(sig *types.Signature, st *State, reach string) Val {
	var rs []Val
	for i := 0; i < sig.Results().Len(); i++ {
		rt := sig.Results().At(i).Type()
		t := fc.fresh(fc.S.SortOf(rt), "ures")
		fc.assume(reach, fc.typeInv(st, t, rt))
		rs = append(rs, Val{T: t, Ty: rt})
	}
	return packVals(sig, rs)
}

func (fc *FuncCtx) noteAssumption(s string) {
	for _, a := range fc.assumptions {
		if a == s {
			return
		}
	}
	fc.assumptions = append(fc.assumptions, s)
}

// applyEffects havocs the locations in locs and assumes everything else
// allocated before the call is unchanged.
func (fc *FuncCtx) applyEffects(st, pre *State, locs []modLoc, reach string, mayAlloc bool) {
	if mayAlloc {
		old := fc.next(pre)
		n := fc.fresh("Int", "next_c")
		fc.emit("(assert (>= " + n + " " + old + "))")
		st.m[nextKey] = n
		fc.touched[nextKey] = true
	}
	comps := map[string]bool{}
	for _, l := range locs {
		if l.kind == "cell" {
			// by-reference local: havoc the named part
			lv := *l.cell
			if l.field >= 0 {
				lv.Path = append(append([]pathStep{}, lv.Path...), pathStep{Field: l.field, Ty: lv.Ty})
				_, f := fc.S.Field(l.cell.Ty, l.field)
				lv.Ty = f.Ty
			}
			nv := fc.fresh(fc.S.SortOf(lv.Ty), "byref")
			fc.store(st, &lv, nv)
			fc.assume(reach, fc.typeInv(st, nv, lv.Ty))
			continue
		}
		comps[l.comp] = true
	}
	var keys []string
	for k := range comps {
		keys = append(keys, k)
	}
	sort.Strings(keys)
	for _, k := range keys {
		nv := fc.fresh(fc.compSort[k], "c_"+shortKey(k))
		st.m[k] = nv
		fc.touched[k] = true
	}
	next0 := fc.next(pre)
	for _, k := range keys {
		fc.assume(reach, fc.frameFormula(k, pre, st, next0, locs))
		if strings.HasPrefix(k, "E:") {
			fc.assume(reach, fc.atFrameFormula(k, pre, st, next0, locs))
		}
	}
}

// withTypeArgs makes the type parameters of a generic instance visible to resolveType.
func (fc *FuncCtx) withTypeArgs(fn *ssa.Function, f func()) {
	save := fc.typeArgs
	fc.typeArgs = typeArgsOf(fn)
	defer func() { fc.typeArgs = save }()
	f()
}

func typeArgsOf(fn *ssa.Function) map[string]types.Type {
	for f := fn; f != nil; f = f.Parent() {
		if f.Origin() != nil {
			m := map[string]types.Type{}
			osig := f.Origin().Signature
			var tps *types.TypeParamList
			if osig.Recv() != nil {
				tps = osig.RecvTypeParams()
			} else {
				tps = osig.TypeParams()
			}
			ta := f.TypeArgs()
			for i := 0; tps != nil && i < tps.Len() && i < len(ta); i++ {
				m[tps.At(i).Obj().Name()] = ta[i]
			}
			return m
		}
	}
	return nil
}

func (fc *FuncCtx) pureApp(fn *ssa.Function, args []Val) string {
	name := fc.declarePure(fn)
	var ts []string
	for _, a := range args {
		ts = append(ts, a.T)
	}
	if len(ts) == 0 {
		return name
	}
	return "(" + name + " " + strings.Join(ts, " ") + ")"
}

// declarePure declares the uninterpreted function standing for a Go function
// whose contract says `pure`, with its contract as an axiom.
func (fc *FuncCtx) declarePure(fn *ssa.Function) string {
	name := "fn_" + sanitize(fn.String())
	if fc.ghostDecl[name] {
		return name
	}
	fc.ghostDecl[name] = true
	ct := fc.V.contractFor(fn)
	sig := fn.Signature
	var ps, binds, guards []string
	env := &Env{fc: fc, vars: map[string]Val{}, lets: map[string]Expr{}, st: fc.init, old: fc.init}
	if ct != nil {
		env.pkg = fc.V.typesPkg(ct.Pkg)
	}
	if env.pkg == nil && fn.Pkg != nil {
		env.pkg = fn.Pkg.Pkg
	}
	var bound []string
	for i, p := range fn.Params {
		so := fc.S.SortOf(p.Type())
		ps = append(ps, so)
		bn := fmt.Sprintf("a%d?%s", i, sanitize(fn.Name()))
		bound = append(bound, bn)
		binds = append(binds, "("+bn+" "+so+")")
		env.vars[p.Name()] = Val{T: bn, Ty: p.Type()}
		if g := fc.typeInv(fc.init, bn, p.Type()); g != "true" {
			if _, isInt, ok := intInfo(p.Type()); ok && isInt || ok {
				guards = append(guards, g)
			} else if _, isSt := p.Type().Underlying().(*types.Struct); isSt {
				guards = append(guards, g)
			}
		}
	}
	rt := sig.Results().At(0).Type()
	fc.specHdr = append(fc.specHdr, fmt.Sprintf("(declare-fun %s (%s) %s)", name, strings.Join(ps, " "), fc.S.SortOf(rt)))
	if ct != nil && len(ct.Ensures) > 0 && len(bound) > 0 {
		app := "(" + name + " " + strings.Join(bound, " ") + ")"
		env.vars["result"] = Val{T: app, Ty: rt}
		var pre, post []string
		fc.withTypeArgs(fn, func() {
			for _, l := range ct.Lets {
				env.lets[l.Name] = l.E
			}
			for _, r := range ct.Requires {
				pre = append(pre, fc.evalBool(env, r.E))
			}
			for _, e := range ct.Ensures {
				post = append(post, fc.evalBool(env, e.E))
			}
		})
		// (no type invariant on the result here: interface-typed arguments range over
		// values that carry none, which would make the axiom contradictory)
		fc.specHdr = append(fc.specHdr, "(assert (forall ("+strings.Join(binds, " ")+") (! "+implies(and(append(guards, pre...)...), and(post...))+" :pattern ("+app+"))))")
	}
	return name
}

// pureGoCall: a Go function mentioned inside a specification.
func (fc *FuncCtx) pureGoCall(fn *ssa.Function, args []Val) Val {
	ct := fc.V.contractFor(fn)
	if ct == nil || !ct.Pure {
		specFail("function %s used in a specification must have a contract marked pure", fn.String())
	}
	if fn.Signature.Results().Len() != 1 {
		specFail("pure function %s must have exactly one result", fn.String())
	}
	rt := fn.Signature.Results().At(0).Type()
	t := fc.pureApp(fn, args)
	if b, ok := rt.Underlying().(*types.Basic); ok && b.Kind() == types.Bool {
		return Val{T: t, Ty: rt}
	}
	return Val{T: t, Ty: rt}
}

func (fc *FuncCtx) execParamCall(x *ssa.Call, pname string, args []Val, st *State, reach string) {
	var sp *CallSpec
	if fc.C != nil {
		sp = fc.C.Calls[pname]
	}
	if sp == nil {
		// nothing is said about the callback: it is arbitrary code
		site := fc.siteKey(pname)
		fv := fc.val(st, x.Call.Value)
		fc.oblige(fmt.Sprintf("call.%s/nonnil", site), "nil", reach, "(not (= "+fv.T+" 0))", x.Pos(), "call of nil function")
		fc.noteAssumption(fmt.Sprintf("call through the function value %s (%s): treated as arbitrary code", pname, site))
		fc.havocForArbitraryCall(args, nil, st, reach)
		fc.vals[x] = fc.arbitraryResults(x.Call.Signature(), st, reach)
		return
	}
	if len(sp.Args) != len(args) {
		specFail("calls %s: arity mismatch", pname)
	}
	site := fc.siteKey(pname)
	// nil function value
	fv := fc.val(st, x.Call.Value)
	fc.oblige(fmt.Sprintf("call.%s/nonnil", site), "nil", reach, "(not (= "+fv.T+" 0))", x.Pos(), "call of nil function")
	env := fc.bodyEnv(st, x.Block())
	for i, a := range sp.Args {
		env.vars[a] = args[i]
	}
	for j, r := range sp.Requires {
		fc.oblige(fmt.Sprintf("call.%s/pre%d", site, j), "pre", reach, fc.evalBool(env, r.E), x.Pos(), r.Text)
	}
	fc.noteAssumption(fmt.Sprintf("callback %s of %s does not write memory the function itself reads or writes", pname, fc.Key))
	sig := x.Call.Signature()
	var rs []Val
	for i := 0; i < sig.Results().Len(); i++ {
		rt := sig.Results().At(i).Type()
		t := fc.fresh(fc.S.SortOf(rt), "cbres")
		fc.assume(reach, fc.typeInv(st, t, rt))
		rs = append(rs, Val{T: t, Ty: rt})
	}
	switch len(rs) {
	case 0:
		fc.vals[x] = Val{Ty: sig.Results()}
	case 1:
		fc.vals[x] = rs[0]
	default:
		fc.vals[x] = Val{Ty: sig.Results(), Tuple: rs}
	}
}

func (fc *FuncCtx) execInvoke(x *ssa.Call, st *State, reach string) {
	c := &x.Call
	recv := fc.val(st, c.Value)
	m := c.Method
	// contract keyed by interface type + method
	it := c.Value.Type()
	key := ""
	if n, ok := it.(*types.Named); ok && n.Obj().Pkg() != nil {
		key = n.Obj().Pkg().Path() + "." + n.Obj().Name() + "." + m.Name()
	}
	ct := fc.V.CS.Funcs[key]
	if ct == nil {
		if n, ok := it.(*types.Named); ok {
			ct = fc.V.CS.Funcs["lox.runtime."+n.Obj().Name()+"."+m.Name()]
		}
	}
	site := fc.siteKey(m.Name())
	var ss *SiteSpec
	if fc.C != nil {
		ss = fc.C.Sites[site]
	}
	fc.oblige(fmt.Sprintf("call.%s/nonnil", site), "nil", reach, "(not (= "+recv.T+" iface_nil))", x.Pos(), "method call on nil interface")
	if ct == nil && ss == nil {
		// dynamic dispatch to a method nothing is said about: arbitrary code
		fc.noteAssumption(fmt.Sprintf("interface method call %s.%s (%s) has no contract: treated as arbitrary code", it, m.Name(), site))
		args := fc.callArgs(st, c)
		fc.havocForArbitraryCall(append([]Val{recv}, args...), nil, st, reach)
		fc.vals[x] = fc.arbitraryResults(m.Type().(*types.Signature), st, reach)
		return
	}
	pre := st.clone()
	sig := m.Type().(*types.Signature)
	args := fc.callArgs(st, c)
	var locs []modLoc
	var env *Env
	if ct != nil {
		env = &Env{fc: fc, vars: map[string]Val{"recv": recv}, lets: map[string]Expr{}, st: pre, old: pre, pkg: fc.V.typesPkg(ct.Pkg)}
		for i := 0; i < sig.Params().Len() && i < len(args); i++ {
			if n := sig.Params().At(i).Name(); n != "" {
				env.vars[n] = args[i]
			}
			env.vars[fmt.Sprintf("arg%d", i)] = args[i]
		}
		for j, r := range ct.Requires {
			fc.oblige(fmt.Sprintf("call.%s/pre%d", site, j), "pre", reach, fc.evalBool(env, r.E), x.Pos(), r.Text)
		}
		locs = fc.parseModifies(env, ct.Modifies)
	}
	if ss != nil {
		benv := fc.bodyEnv(pre, x.Block())
		benv.vars["recv"] = recv
		for i := range args {
			benv.vars[fmt.Sprintf("arg%d", i)] = args[i]
		}
		for j, r := range ss.Requires {
			fc.oblige(fmt.Sprintf("call.%s/sitepre%d", site, j), "pre", reach, fc.evalBool(benv, r.E), x.Pos(), r.Text)
		}
		locs = append(locs, fc.parseModifies(benv, ss.Modifies)...)
	}
	fc.applyEffects(st, pre, locs, reach, true)
	var rs []Val
	for i := 0; i < sig.Results().Len(); i++ {
		rt := sig.Results().At(i).Type()
		t := fc.fresh(fc.S.SortOf(rt), "ires")
		fc.assume(reach, fc.typeInv(st, t, rt))
		rs = append(rs, Val{T: t, Ty: rt})
	}
	if ct != nil {
		penv := env.clone()
		penv.st, penv.old = st, pre
		for i, r := range rs {
			penv.vars[fmt.Sprintf("result%d", i)] = r
		}
		if len(rs) > 0 {
			penv.vars["result"] = rs[0]
		}
		for _, e := range ct.Ensures {
			fc.assume(reach, fc.evalBool(penv, e.E))
		}
		fc.noteAssumption(fmt.Sprintf("assumed contract of interface method %s (%s:%d)", key, relFile(ct.File), ct.Line))
	}
	if ss != nil {
		benv := fc.bodyEnv(st, x.Block())
		benv.old = pre
		for i, r := range rs {
			benv.vars[fmt.Sprintf("result%d", i)] = r
		}
		if len(rs) > 0 {
			benv.vars["result"] = rs[0]
		}
		for _, a := range ss.Assumes {
			fc.assume(reach, fc.evalBool(benv, a.E))
			fc.noteAssumption(fmt.Sprintf("assumed at call site %s of %s: %s", site, fc.Key, a.Text))
		}
	}
	switch len(rs) {
	case 0:
		fc.vals[x] = Val{Ty: sig.Results()}
	case 1:
		fc.vals[x] = rs[0]
	default:
		fc.vals[x] = Val{Ty: sig.Results(), Tuple: rs}
	}
}

// ---- builtins ---------------------------------------------------------------------

func (fc *FuncCtx) execBuiltin(x *ssa.Call, b *ssa.Builtin, st *State, reach string) {
	args := fc.callArgs(st, &x.Call)
	switch b.Name() {
	case "len":
		v := args[0]
		switch u := x.Call.Args[0].Type().Underlying().(type) {
		case *types.Slice:
			fc.vals[x] = Val{T: fc.define("Int", "(s-len "+v.T+")", x.Name()), Ty: x.Type()}
		case *types.Basic:
			fc.vals[x] = Val{T: fc.define("Int", "(strlen "+v.T+")", x.Name()), Ty: x.Type()}
		case *types.Map:
			fc.mapComps(u)
			l := fc.define("Int", "(ite (= "+v.T+" 0) 0 (select "+fc.get(st, "Mlen:"+types.TypeString(u, nil))+" "+v.T+"))", x.Name())
			fc.assume(reach, "(>= "+l+" 0)")
			fc.vals[x] = Val{T: l, Ty: x.Type()}
		case *types.Array:
			fc.vals[x] = Val{T: fmt.Sprint(u.Len()), Ty: x.Type()}
		default:
			panic(unsupported("len of " + x.Call.Args[0].Type().String()))
		}
	case "cap":
		fc.vals[x] = Val{T: fc.define("Int", "(s-cap "+args[0].T+")", x.Name()), Ty: x.Type()}
	case "append":
		fc.execAppend(x, args, st, reach)
	case "copy":
		fc.execCopy(x, args, st, reach)
	case "delete":
		m, k := args[0], args[1]
		mt := x.Call.Args[0].Type().Underlying().(*types.Map)
		dk, _ := fc.mapComps(mt)
		lk := "Mlen:" + types.TypeString(mt, nil)
		d := fc.get(st, dk)
		had := fc.define("Bool", "(and (not (= "+m.T+" 0)) (select (select "+d+" "+m.T+") "+k.T+"))", "had")
		l := fc.get(st, lk)
		fc.set(st, lk, "(ite "+had+" (store "+l+" "+m.T+" (- (select "+l+" "+m.T+") 1)) "+l+")")
		fc.set(st, dk, "(ite "+had+" (store "+d+" "+m.T+" (store (select "+d+" "+m.T+") "+k.T+" false)) "+d+")")
	case "min", "max":
		op := "<="
		if b.Name() == "max" {
			op = ">="
		}
		t := args[0].T
		for _, a := range args[1:] {
			t = "(ite (" + op + " " + t + " " + a.T + ") " + t + " " + a.T + ")"
		}
		fc.vals[x] = Val{T: fc.define("Int", t, x.Name()), Ty: x.Type()}
	case "ssa:wrapnilchk":
		fc.oblige(fmt.Sprintf("nil#%d/wrap", fc.ord("nil")), "nil", reach, "(not (= "+args[0].T+" 0))", x.Pos(), "nil receiver")
		fc.vals[x] = args[0]
	case "ssa:deferstack":
		fc.vals[x] = Val{T: "0", Ty: x.Type(), Sort: "Int"}
	case "print", "println":
	default:
		panic(unsupported("builtin " + b.Name()))
	}
}

func (fc *FuncCtx) execAppend(x *ssa.Call, args []Val, st *State, reach string) {
	s, t := args[0], args[1]
	sl, ok := x.Call.Args[0].Type().Underlying().(*types.Slice)
	if !ok {
		panic(unsupported("append on non-slice"))
	}
	et := sl.Elem()
	es := fc.S.SortOf(et)
	ek := fc.elemComp(et)
	E := fc.get(st, ek)
	if isString(x.Call.Args[1].Type()) {
		panic(unsupported("append(bytes, string...)"))
	}
	n := "(s-len " + s.T + ")"
	m := fc.define("Int", "(s-len "+t.T+")", "app_m")
	total := fc.define("Int", "(+ "+n+" "+m+")", "app_total")
	inplace := fc.define("Bool", "(<= "+total+" (s-cap "+s.T+"))", "app_inplace")
	sbase, soff := "(s-base "+s.T+")", "(s-off "+s.T+")"
	tbase, toff := "(s-base "+t.T+")", "(s-off "+t.T+")"
	// statically known single-element append (varargs array of length 1)
	single := false
	if slc, ok := x.Call.Args[1].(*ssa.Slice); ok {
		if al, ok := slc.X.(*ssa.Alloc); ok {
			if arr, ok := al.Type().Underlying().(*types.Pointer).Elem().Underlying().(*types.Array); ok && arr.Len() == 1 && slc.Low == nil && slc.High == nil {
				single = true
			}
		}
	}
	nb := fc.define("Int", fc.next(st), "app_nb")
	newcap := fc.fresh("Int", "app_cap")
	fc.assume(reach, "(<= "+total+" 4611686018427387904)") // memory is finite: cannot hold 2^62 elements
	fc.assume(reach, "(and (>= "+newcap+" "+total+") (<= "+newcap+" 4611686018427387904))")
	var arrIn, arrNew string
	if single {
		xv := "(select (select " + E + " " + tbase + ") " + toff + ")"
		arrIn = "(store (select " + E + " " + sbase + ") (+ " + soff + " " + n + ") " + xv + ")"
		an := fc.fresh("(Array Int "+es+")", "app_arr")
		fc.nfresh++
		k := fmt.Sprintf("k?%d", fc.nfresh)
		fc.emit("(assert (forall ((" + k + " Int)) (! (=> (and (<= 0 " + k + ") (< " + k + " " + n + ")) (= (select " + an + " " + k + ") (select (select " + E + " " + sbase + ") (+ " + soff + " " + k + ")))) :pattern ((select " + an + " " + k + ")))))")
		fc.emit("(assert (= (select " + an + " " + n + ") " + xv + "))")
		arrNew = an
	} else {
		ai := fc.fresh("(Array Int "+es+")", "app_in")
		fc.nfresh++
		k := fmt.Sprintf("k?%d", fc.nfresh)
		old := "(select " + E + " " + sbase + ")"
		fc.emit("(assert (forall ((" + k + " Int)) (! (= (select " + ai + " " + k + ") (ite (and (<= (+ " + soff + " " + n + ") " + k + ") (< " + k + " (+ " + soff + " " + total + "))) (select (select " + E + " " + tbase + ") (+ " + toff + " (- " + k + " (+ " + soff + " " + n + ")))) (select " + old + " " + k + "))) :pattern ((select " + ai + " " + k + ")))))")
		arrIn = ai
		an := fc.fresh("(Array Int "+es+")", "app_arr")
		fc.emit("(assert (forall ((" + k + " Int)) (! (=> (and (<= 0 " + k + ") (< " + k + " " + total + ")) (= (select " + an + " " + k + ") (ite (< " + k + " " + n + ") (select " + old + " (+ " + soff + " " + k + ")) (select (select " + E + " " + tbase + ") (+ " + toff + " (- " + k + " " + n + ")))))) :pattern ((select " + an + " " + k + ")))))")
		arrNew = an
	}
	res := fc.define("Slice", "(ite "+inplace+" (mk-slice "+sbase+" "+soff+" "+total+" (s-cap "+s.T+")) (mk-slice "+nb+" 0 "+total+" "+newcap+"))", x.Name())
	fc.set(st, ek, "(ite "+inplace+" (store "+E+" "+sbase+" "+arrIn+") (store "+E+" "+nb+" "+arrNew+"))")
	fc.atFrame(et, E, fc.get(st, ek), func(b, ix string) string {
		return "(ite " + inplace + " (and (= " + b + " " + sbase + ") (<= (+ " + soff + " " + n + ") " + ix + ") (< " + ix + " (+ " + soff + " " + total + "))) (= " + b + " " + nb + "))"
	})
	fc.set(st, nextKey, "(ite "+inplace+" "+nb+" (+ "+nb+" 1))")
	fc.vals[x] = Val{T: res, Ty: x.Type()}
}

func (fc *FuncCtx) execCopy(x *ssa.Call, args []Val, st *State, reach string) {
	d, s := args[0], args[1]
	sl, ok := x.Call.Args[0].Type().Underlying().(*types.Slice)
	if !ok || isString(x.Call.Args[1].Type()) {
		panic(unsupported("copy from string"))
	}
	et := sl.Elem()
	ek := fc.elemComp(et)
	E := fc.get(st, ek)
	n := fc.define("Int", "(ite (<= (s-len "+d.T+") (s-len "+s.T+")) (s-len "+d.T+") (s-len "+s.T+"))", "copy_n")
	na := fc.fresh("(Array Int "+fc.S.SortOf(et)+")", "copy_arr")
	fc.nfresh++
	k := fmt.Sprintf("k?%d", fc.nfresh)
	dbase, doff := "(s-base "+d.T+")", "(s-off "+d.T+")"
	sbase, soff := "(s-base "+s.T+")", "(s-off "+s.T+")"
	fc.emit("(assert (forall ((" + k + " Int)) (! (= (select " + na + " " + k + ") (ite (and (<= " + doff + " " + k + ") (< " + k + " (+ " + doff + " " + n + "))) (select (select " + E + " " + sbase + ") (+ " + soff + " (- " + k + " " + doff + "))) (select (select " + E + " " + dbase + ") " + k + "))) :pattern ((select " + na + " " + k + ")))))")
	fc.set(st, ek, "(store "+E+" "+dbase+" "+na+")")
	fc.atFrame(et, E, fc.get(st, ek), func(b, ix string) string {
		return "(and (= " + b + " " + dbase + ") (<= " + doff + " " + ix + ") (< " + ix + " (+ " + doff + " " + n + ")))"
	})
	fc.vals[x] = Val{T: n, Ty: x.Type()}
}

func parseTypeText(src string) (te TypeExpr, err error) {
	toks, err := lex(src)
	if err != nil {
		return te, err
	}
	p := &parser{toks: toks, src: src}
	defer func() {
		if r := recover(); r != nil {
			err = fmt.Errorf("bad type %q: %v", src, r)
		}
	}()
	te = p.typeExpr()
	return te, nil
}

func (fc *FuncCtx) fnCellOfLV(lv *LValue) (Val, bool) {
	if lv.Kind == lvCell && lv.Cell != nil && len(lv.Path) == 0 {
		v, ok := fc.fnCells[lv.Cell]
		return v, ok
	}
	return Val{}, false
}
