package vc

import (
	"fmt"
	"go/constant"
	"go/token"
	"go/types"
	"sort"
	"strings"

	"golang.org/x/tools/go/ssa"
)

type Obligation struct {
	Name   string
	Func   string
	Kind   string
	Goal   string
	Reach  string
	N      int // script prefix length
	Pos    string
	Text   string // contract text or description
	fc     *FuncCtx
	Res    SolverResult
	Hidden bool
	ResultTerms []string // SMT terms of the returned values (post obligations)
}

type loopInfo struct {
	Header  *ssa.BasicBlock
	Ord     int
	Body    map[*ssa.BasicBlock]bool
	Spec    *LoopSpec
	headSt  *State // state at header after havoc (arbitrary iteration)
	preSt   *State // state on entry from outside
	variant string
	modset  []string
}

type FuncCtx struct {
	V        *Verifier
	Fn       *ssa.Function
	C        *FuncContract
	Key      string // display name, e.g. rang3.Flatten
	S        *Sorts
	script   []string
	nfresh   int
	obls     []*Obligation
	vals     map[ssa.Value]Val
	compSort map[string]string
	compTy   map[string]types.Type
	initName map[string]string
	counters map[string]int
	sandbox  int
	loops    map[*ssa.BasicBlock]*loopInfo
	loopList []*loopInfo
	rpo      []*ssa.BasicBlock
	locals   map[string][]*ssa.Alloc
	params   map[string]Val
	paramLst []Val
	init     *State
	touched  map[string]bool
	escaping map[*ssa.Alloc]bool
	cellRef  map[*ssa.Alloc]string // heap reference of escaping struct allocs
	fnCells  map[*ssa.Alloc]Val
	callOrd  map[string]int
	callIdx  map[*ssa.Call]int
	specHdr  []string
	ghostDecl map[string]bool
	assumptions []string
	defers []deferRec
	// inlining of callees without a contract (inline.go)
	inl         *inlineFrame
	inlineDepth int
	inlineStack []*ssa.Function
	rootFn      *ssa.Function
	// calls to functions without any contract (see VerifyFunc)
	sawUnknownCall bool
	preRegistered  bool
	curLoopPre *State
	nRet     int
	skip     map[string]bool
	edgeCond map[[2]*ssa.BasicBlock]string
	outSt    map[*ssa.BasicBlock]*State
	blockReach map[*ssa.BasicBlock]string
	paramCell map[*ssa.Alloc]string
	opaqueComps map[string][]string
	paramAlloc map[*ssa.Alloc]string
	typeArgs map[string]types.Type
}

func (fc *FuncCtx) emit(line string) { fc.script = append(fc.script, line) }

func (fc *FuncCtx) fresh(sort, hint string) string {
	fc.nfresh++
	n := fmt.Sprintf("%s!%d", sanitize(hint), fc.nfresh)
	fc.emit(fmt.Sprintf("(declare-const %s %s)", n, sort))
	return n
}

func (fc *FuncCtx) define(sort, term, hint string) string {
	if len(term) < 24 && !strings.ContainsAny(term, " ") {
		return term
	}
	fc.nfresh++
	n := fmt.Sprintf("%s!%d", sanitize(hint), fc.nfresh)
	fc.emit(fmt.Sprintf("(define-fun %s () %s %s)", n, sort, term))
	return n
}

func (fc *FuncCtx) assume(reach, fact string) {
	if fact == "true" || fact == "" {
		return
	}
	fc.emit("(assert " + implies(reach, fact) + ")")
}

func (fc *FuncCtx) ord(kind string) int {
	n := fc.counters[kind]
	fc.counters[kind] = n + 1
	return n
}

func (fc *FuncCtx) oblige(name, kind, reach, goal string, pos token.Pos, text string) {
	if fc.sandbox > 0 {
		return
	}
	if fc.skip[kind] {
		return
	}
	if goal == "true" || reach == "false" {
		// trivially discharged; still recorded so that counts are stable
	}
	p := ""
	if pos.IsValid() {
		pp := fc.V.Prog.Fset.Position(pos)
		p = fmt.Sprintf("%s:%d", pp.Filename, pp.Line)
	}
	fc.obls = append(fc.obls, &Obligation{Name: fc.Key + "/" + name, Func: fc.Key, Kind: kind, Goal: goal, Reach: reach, N: len(fc.script), Pos: p, Text: text, fc: fc})
}

// ---- state components ---------------------------------------------------------

func (fc *FuncCtx) registerComp(key, sort string) {
	if _, ok := fc.compSort[key]; !ok {
		if fc.preRegistered && fc.sawUnknownCall && heapLikeKey(key) {
			panic(unsupported("heap component " + key + " first used after a call to an uncontracted function"))
		}
		fc.compSort[key] = sort
	}
}

func (fc *FuncCtx) get(st *State, key string) string {
	if v, ok := st.m[key]; ok {
		return v
	}
	if st.bind != nil {
		if _, ok := fc.compSort[key]; !ok {
			panic(fmt.Sprintf("internal: component %s not registered", key))
		}
		n := fmt.Sprintf("hb?%d?%s", len(*st.bind), sanitize(shortKey(key)))
		st.m[key] = n
		*st.bind = append(*st.bind, key)
		return n
	}
	if n, ok := fc.initName[key]; ok {
		return n
	}
	so, ok := fc.compSort[key]
	if !ok {
		panic(fmt.Sprintf("internal: component %s not registered", key))
	}
	n := fmt.Sprintf("init!%s", sanitize(key))
	if _, dup := fc.ghostDecl[n]; dup {
		n = fmt.Sprintf("init!%s!%d", sanitize(key), len(fc.initName))
	}
	fc.ghostDecl[n] = true
	fc.initName[key] = n
	// initial versions live in the header part so that they are visible to every query
	fc.specHdr = append(fc.specHdr, fmt.Sprintf("(declare-const %s %s)", n, so))
	if key == nextKey {
		fc.specHdr = append(fc.specHdr, fmt.Sprintf("(assert (>= %s 1))", n))
	}
	return n
}

func (fc *FuncCtx) set(st *State, key, term string) {
	so := fc.compSort[key]
	if strings.HasPrefix(term, "(ite ") && strings.HasPrefix(so, "(Array") {
		// named by a constant (not a macro) so that the term can occur in patterns
		n := fc.fresh(so, "s_"+shortKey(key))
		fc.emit("(assert (= " + n + " " + term + "))")
		st.m[key] = n
		fc.touched[key] = true
		return
	}
	st.m[key] = fc.define(so, term, "s_"+shortKey(key))
	fc.touched[key] = true
}

func shortKey(k string) string {
	if i := strings.LastIndexAny(k, "/."); i >= 0 && i+1 < len(k) {
		pre := k[:strings.IndexByte(k, ':')+1]
		return pre + k[i+1:]
	}
	return k
}

func (fc *FuncCtx) heapComp(st types.Type, field int) string {
	stt := st.Underlying().(*types.Struct)
	key := heapKey(st, stt.Field(field).Name())
	fc.registerComp(key, "(Array Int "+fc.S.SortOf(stt.Field(field).Type())+")")
	fc.compTy[key] = stt.Field(field).Type()
	return key
}

func (fc *FuncCtx) elemComp(t types.Type) string {
	key := elemKey(t)
	fc.registerComp(key, "(Array Int (Array Int "+fc.S.SortOf(t)+"))")
	fc.compTy[key] = t
	return key
}

func (fc *FuncCtx) ptrComp(t types.Type) string {
	key := "P:" + types.TypeString(t, nil)
	fc.registerComp(key, "(Array Int "+fc.S.SortOf(t)+")")
	fc.compTy[key] = t
	return key
}

func (fc *FuncCtx) cellComp(a *ssa.Alloc) string {
	key := cellKey(a)
	et := a.Type().Underlying().(*types.Pointer).Elem()
	fc.registerComp(key, fc.S.SortOf(et))
	fc.compTy[key] = et
	return key
}

func (fc *FuncCtx) next(st *State) string {
	fc.registerComp(nextKey, "Int")
	return fc.get(st, nextKey)
}

// allocRef returns a fresh reference and bumps the allocation counter.
func (fc *FuncCtx) allocRef(st *State) string {
	r := fc.define("Int", fc.next(st), "ref")
	fc.set(st, nextKey, "(+ "+r+" 1)")
	return r
}

// ---- lvalues ------------------------------------------------------------------

func (fc *FuncCtx) applyPath(root string, path []pathStep) string {
	v := root
	for _, s := range path {
		if s.Field >= 0 {
			sel, _ := fc.S.Field(s.Ty, s.Field)
			v = "(" + sel + " " + v + ")"
		} else {
			v = "(select " + v + " " + s.Index + ")"
		}
	}
	return v
}

func (fc *FuncCtx) updatePath(root string, path []pathStep, nv string) string {
	if len(path) == 0 {
		return nv
	}
	s := path[0]
	if s.Field >= 0 {
		sel, _ := fc.S.Field(s.Ty, s.Field)
		inner := fc.updatePath("("+sel+" "+root+")", path[1:], nv)
		return fc.S.UpdateField(s.Ty, root, s.Field, inner)
	}
	inner := fc.updatePath("(select "+root+" "+s.Index+")", path[1:], nv)
	return "(store " + root + " " + s.Index + " " + inner + ")"
}

func (fc *FuncCtx) lvKey(lv *LValue) string {
	switch lv.Kind {
	case lvCell:
		if lv.Cell != nil {
			return fc.cellComp(lv.Cell)
		}
		return lv.Base // free-variable / by-ref cell key stored in Base
	case lvHeapField:
		return fc.heapComp(lv.Struct, lv.Field)
	case lvElem:
		return fc.elemComp(lv.ElemTy)
	case lvGlobal:
		key := globalKey(lv.Global)
		et := lv.Global.Type().Underlying().(*types.Pointer).Elem()
		fc.registerComp(key, fc.S.SortOf(et))
		fc.compTy[key] = et
		if !fc.ghostDecl["ginv:"+key] {
			// the entry value of a package-level variable satisfies its type invariant
			fc.ghostDecl["ginv:"+key] = true
			iv := fc.get(fc.init, key)
			fc.specHdr = append(fc.specHdr, "(assert "+fc.typeInv(fc.init, iv, et)+")")
		}
		return key
	}
	panic("bad lvalue")
}

func (fc *FuncCtx) readRoot(st *State, lv *LValue) string {
	key := fc.lvKey(lv)
	switch lv.Kind {
	case lvCell, lvGlobal:
		return fc.get(st, key)
	case lvHeapField:
		return "(select " + fc.get(st, key) + " " + lv.Ref + ")"
	case lvElem:
		if lv.SliceT != "" {
			return fc.at(lv.ElemTy, fc.get(st, key), lv.SliceT, lv.SliceI)
		}
		return "(select (select " + fc.get(st, key) + " " + lv.Base + ") " + lv.Idx + ")"
	}
	panic("bad lvalue")
}

// at is the accessor term for element i of slice s in element heap E. It is an
// uninterpreted function with a definitional axiom so that quantified facts
// about slice elements have clean E-matching patterns.
func (fc *FuncCtx) at(et types.Type, E, s, i string) string {
	so := fc.S.SortOf(et)
	name := "at_" + sanitize(so)
	if !fc.ghostDecl[name] {
		fc.ghostDecl[name] = true
		fc.specHdr = append(fc.specHdr, fmt.Sprintf("(declare-fun %s ((Array Int (Array Int %s)) Slice Int) %s)", name, so, so))
		fc.specHdr = append(fc.specHdr, fmt.Sprintf("(assert (forall ((E (Array Int (Array Int %s))) (s Slice) (i Int)) (! (= (%s E s i) (select (select E (s-base s)) (+ (s-off s) i))) :pattern ((%s E s i)))))", so, name, name))
	}
	return "(" + name + " " + E + " " + s + " " + i + ")"
}

// atFrame asserts the accessor-level frame fact of an element-heap update:
// at(Enew, s, i) = at(Eold, s, i) unless excl(base s, off s + i).
func (fc *FuncCtx) atFrame(et types.Type, Eold, Enew string, excl func(b, ix string) string) {
	if Eold == Enew {
		return
	}
	fc.nfresh++
	sv, iv := fmt.Sprintf("fs?%d", fc.nfresh), fmt.Sprintf("fj?%d", fc.nfresh)
	a1 := fc.at(et, Enew, sv, iv)
	a0 := fc.at(et, Eold, sv, iv)
	ex := excl("(s-base "+sv+")", "(+ (s-off "+sv+") "+iv+")")
	fc.emit("(assert (forall ((" + sv + " Slice) (" + iv + " Int)) (! " + implies(not(ex), "(= "+a1+" "+a0+")") + " :pattern (" + a1 + ") :pattern (" + a0 + "))))")
}

// zeroArray is an array whose every element is the zero value of et.
func (fc *FuncCtx) zeroArray(et types.Type) string {
	so := fc.S.SortOf(et)
	name := "zeroarr_" + sanitize(so)
	if !fc.ghostDecl[name] {
		fc.ghostDecl[name] = true
		z := fc.S.Zero(et)
		fc.specHdr = append(fc.specHdr, fmt.Sprintf("(declare-const %s (Array Int %s))", name, so))
		fc.specHdr = append(fc.specHdr, fmt.Sprintf("(assert (forall ((i Int)) (! (= (select %s i) %s) :pattern ((select %s i)))))", name, z, name))
	}
	return name
}

func (fc *FuncCtx) load(st *State, lv *LValue) string {
	return fc.applyPath(fc.readRoot(st, lv), lv.Path)
}

func (fc *FuncCtx) storePlain(st *State, lv *LValue, v string) {
	key := fc.lvKey(lv)
	root := fc.readRoot(st, lv)
	if len(lv.Path) > 0 {
		root = fc.define(fc.S.SortOf(lv.RootTy), root, "root")
	}
	nv := fc.updatePath(root, lv.Path, v)
	switch lv.Kind {
	case lvCell, lvGlobal:
		fc.set(st, key, nv)
	case lvHeapField:
		fc.set(st, key, "(store "+fc.get(st, key)+" "+lv.Ref+" "+nv+")")
	case lvElem:
		h := fc.get(st, key)
		fc.set(st, key, "(store "+h+" "+lv.Base+" (store (select "+h+" "+lv.Base+") "+lv.Idx+" "+nv+"))")
		fc.atFrame(lv.ElemTy, h, fc.get(st, key), func(b, ix string) string {
			return "(and (= " + b + " " + lv.Base + ") (= " + ix + " " + lv.Idx + "))"
		})
	}
}

// typeInv returns the type invariant of a value of Go type t (ranges of sized
// integers, slice header sanity, allocatedness of references).
func (fc *FuncCtx) typeInv(st *State, v string, t types.Type) string {
	switch u := t.Underlying().(type) {
	case *types.Basic:
		if bits, signed, ok := intInfo(t); ok && bits > 0 {
			lo, hi := intRange(bits, signed)
			return "(and (<= " + lo + " " + v + ") (<= " + v + " " + hi + "))"
		}
	case *types.Slice:
		return "(and (<= 0 (s-base " + v + ")) (< (s-base " + v + ") " + fc.next(st) + ") (<= 0 (s-off " + v + ")) (<= 0 (s-len " + v + ")) (<= (s-len " + v + ") (s-cap " + v + ")) (<= (+ (s-off " + v + ") (s-cap " + v + ")) 4611686018427387904) (=> (= (s-base " + v + ") 0) (= (s-cap " + v + ") 0)))"
	case *types.Pointer, *types.Map:
		return "(and (<= 0 " + v + ") (< " + v + " " + fc.next(st) + "))"
	case *types.Struct:
		var parts []string
		for i := 0; i < u.NumFields(); i++ {
			sel, f := fc.S.Field(t, i)
			parts = append(parts, fc.typeInv(st, "("+sel+" "+v+")", f.Ty))
		}
		return and(parts...)
	}
	return "true"
}

// ---- constants ----------------------------------------------------------------

func (fc *FuncCtx) constVal(c *ssa.Const) Val {
	t := c.Type()
	if c.Value == nil {
		if _, ok := t.Underlying().(*types.Signature); ok {
			return Val{T: "0", Ty: t, IsNil: true}
		}
		return Val{T: fc.S.Zero(t), Ty: t, IsNil: true}
	}
	switch c.Value.Kind() {
	case constant.Bool:
		if constant.BoolVal(c.Value) {
			return Val{T: "true", Ty: t}
		}
		return Val{T: "false", Ty: t}
	case constant.Int:
		if v, ok := constant.Int64Val(c.Value); ok {
			return Val{T: intLit(v), Ty: t}
		}
		if v, ok := constant.Uint64Val(c.Value); ok {
			return Val{T: fmt.Sprint(v), Ty: t}
		}
	case constant.String:
		return Val{T: fc.S.StrLit(constant.StringVal(c.Value)), Ty: t}
	}
	panic(unsupported(fmt.Sprintf("constant %s", c)))
}

func (fc *FuncCtx) val(st *State, v ssa.Value) Val {
	switch x := v.(type) {
	case *ssa.Const:
		return fc.constVal(x)
	case *ssa.Function:
		return Val{T: fc.fnID(x), Ty: x.Type(), Fn: x}
	case *ssa.Global:
		return Val{Ty: x.Type(), LV: &LValue{Kind: lvGlobal, Global: x, RootTy: x.Type().Underlying().(*types.Pointer).Elem(), Ty: x.Type().Underlying().(*types.Pointer).Elem()}}
	case *ssa.Builtin:
		return Val{Ty: x.Type()}
	}
	if r, ok := fc.vals[v]; ok {
		return r
	}
	panic(fmt.Sprintf("internal: value %s (%T) used before definition in %s", v.Name(), v, fc.Key))
}

func (fc *FuncCtx) fnID(f *ssa.Function) string {
	return fmt.Sprint(fc.V.fnID(f))
}

// ---- traversal ------------------------------------------------------------------

func (fc *FuncCtx) computeRPO() {
	seen := map[*ssa.BasicBlock]bool{}
	var post []*ssa.BasicBlock
	var dfs func(b *ssa.BasicBlock)
	dfs = func(b *ssa.BasicBlock) {
		seen[b] = true
		for _, s := range b.Succs {
			if !seen[s] {
				dfs(s)
			}
		}
		post = append(post, b)
	}
	dfs(fc.Fn.Blocks[0])
	for i := len(post) - 1; i >= 0; i-- {
		fc.rpo = append(fc.rpo, post[i])
	}
	// loops
	var headers []*ssa.BasicBlock
	for _, b := range fc.rpo {
		for _, s := range b.Succs {
			if s.Dominates(b) {
				if fc.loops[s] == nil {
					fc.loops[s] = &loopInfo{Header: s, Body: map[*ssa.BasicBlock]bool{s: true}}
					headers = append(headers, s)
				}
				// natural loop of back edge b -> s
				li := fc.loops[s]
				var stack []*ssa.BasicBlock
				if !li.Body[b] {
					li.Body[b] = true
					stack = append(stack, b)
				}
				for len(stack) > 0 {
					x := stack[len(stack)-1]
					stack = stack[:len(stack)-1]
					for _, p := range x.Preds {
						if !li.Body[p] {
							li.Body[p] = true
							stack = append(stack, p)
						}
					}
				}
			}
		}
	}
	sort.Slice(headers, func(i, j int) bool { return headers[i].Index < headers[j].Index })
	// ordinal by source position of the header's first positioned instruction, falling back to index
	for i, h := range headers {
		li := fc.loops[h]
		li.Ord = i
		if fc.C != nil {
			li.Spec = fc.C.Loops[i]
		}
		fc.loopList = append(fc.loopList, li)
	}
}

func isBackEdge(from, to *ssa.BasicBlock) bool { return to.Dominates(from) }

// run symbolically executes the blocks of region (in RPO) starting at entry.
func (fc *FuncCtx) run(region map[*ssa.BasicBlock]bool, entry *ssa.BasicBlock, entrySt *State, entryReach string, entryIsOpenLoop bool) {
	for _, b := range fc.rpo {
		if region != nil && !region[b] {
			continue
		}
		var st *State
		var reach string
		if b == entry {
			st, reach = entrySt.clone(), entryReach
		} else {
			var preds []*ssa.BasicBlock
			for _, p := range b.Preds {
				if region != nil && !region[p] {
					continue
				}
				if isBackEdge(p, b) {
					continue
				}
				if _, ok := fc.edgeCond[[2]*ssa.BasicBlock{p, b}]; !ok {
					continue
				}
				preds = append(preds, p)
			}
			if len(preds) == 0 {
				continue
			}
			st, reach = fc.merge(b, preds)
		}
		if li := fc.loops[b]; li != nil && !(b == entry && entryIsOpenLoop) {
			st = fc.enterLoop(li, st, reach)
		}
		fc.blockReach[b] = reach
		fc.execBlock(b, st, reach)
	}
}

func (fc *FuncCtx) merge(b *ssa.BasicBlock, preds []*ssa.BasicBlock) (*State, string) {
	var conds []string
	seenPred := map[*ssa.BasicBlock]bool{}
	var ups []*ssa.BasicBlock
	for _, p := range preds {
		if seenPred[p] {
			continue
		}
		seenPred[p] = true
		ups = append(ups, p)
		conds = append(conds, fc.edgeCond[[2]*ssa.BasicBlock{p, b}])
	}
	reach := fc.define("Bool", or(conds...), fmt.Sprintf("reach_b%d", b.Index))
	if len(ups) == 1 {
		return fc.outSt[ups[0]].clone(), reach
	}
	st := newState()
	keys := map[string]bool{}
	for _, p := range ups {
		for k := range fc.outSt[p].m {
			keys[k] = true
		}
	}
	var ks []string
	for k := range keys {
		ks = append(ks, k)
	}
	sort.Strings(ks)
	for _, k := range ks {
		var terms []string
		same := true
		for _, p := range ups {
			t := fc.get(fc.outSt[p], k)
			terms = append(terms, t)
			if t != terms[0] {
				same = false
			}
		}
		if same {
			st.m[k] = terms[0]
			continue
		}
		t := terms[len(terms)-1]
		for i := len(terms) - 2; i >= 0; i-- {
			t = "(ite " + conds[i] + " " + terms[i] + " " + t + ")"
		}
		st.m[k] = fc.define(fc.compSort[k], t, "m_"+shortKey(k))
	}
	return st, reach
}

func (fc *FuncCtx) loopName(li *loopInfo) string { return fmt.Sprintf("loop%d", li.Ord) }

func (fc *FuncCtx) enterLoop(li *loopInfo, st *State, reach string) *State {
	if li.Spec == nil {
		li.Spec = &LoopSpec{}
	}
	// 1. invariants hold on entry
	li.preSt = st.clone()
	env := fc.bodyEnv(st, li.Header)
	env.pre = li.preSt
	for j, inv := range li.Spec.Invariants {
		g := fc.evalBool(env, inv.E)
		fc.oblige(fmt.Sprintf("%s/inv%d/init", fc.loopName(li), j), "inv", reach, g, token.NoPos, inv.Text)
	}
	if g := fc.autoRangeInv(li, st); g != "" {
		fc.oblige(fmt.Sprintf("%s/rangeinv/init", fc.loopName(li)), "inv", reach, g, token.NoPos, "-1 <= rangeindex && (rangeindex < len || rangeindex == -1) (default invariant of a range loop)")
	}
	// 2. discover the set of components the body may write
	if li.modset == nil {
		li.modset = fc.discover(li, st, reach)
	}
	// 3. havoc and assume
	hs := st.clone()
	for _, k := range li.modset {
		if k == nextKey {
			old := fc.get(st, k)
			n := fc.fresh("Int", "next_h")
			fc.emit("(assert (>= " + n + " " + old + "))")
			hs.m[k] = n
		}
	}
	for _, k := range li.modset {
		if k == nextKey {
			continue
		}
		hs.m[k] = fc.fresh(fc.compSort[k], "h_"+shortKey(k))
		if ty := fc.compTy[k]; ty != nil && strings.HasPrefix(k, "cell:") {
			fc.assume(reach, fc.typeInv(hs, hs.m[k], ty))
		}
	}
	// next must be havoced before type invariants mention it: re-evaluate cells after next
	env2 := fc.bodyEnv(hs, li.Header)
	env2.pre = li.preSt
	for _, inv := range li.Spec.Invariants {
		fc.assume(reach, fc.evalBool(env2, inv.E))
	}
	if g := fc.autoRangeInv(li, hs); g != "" {
		fc.assume(reach, g)
	}
	li.headSt = hs.clone()
	fc.probe(fmt.Sprintf("vacuity/%s-head-reachable", fc.loopName(li)), reach)
	if li.Spec.Decreases != nil {
		v := fc.evalInt(env2, li.Spec.Decreases.E)
		li.variant = fc.define("Int", v, "variant")
	}
	return hs
}

// rangeBounds recognises the header of a `for i := range s` loop over a slice, array or
// string in naive-form SSA (rangeindex starts at -1, is incremented and compared with a
// length computed before the loop) and returns the index variable and the length.
func rangeBounds(h *ssa.BasicBlock) (*ssa.Alloc, ssa.Value) {
	for _, ins := range h.Instrs {
		b, ok := ins.(*ssa.BinOp)
		if !ok || b.Op != token.LSS {
			continue
		}
		add, ok := b.X.(*ssa.BinOp)
		if !ok || add.Op != token.ADD {
			continue
		}
		ld, ok := add.X.(*ssa.UnOp)
		if !ok || ld.Op != token.MUL {
			continue
		}
		a, ok := ld.X.(*ssa.Alloc)
		if !ok || a.Comment != "rangeindex" {
			continue
		}
		if c, ok := add.Y.(*ssa.Const); !ok || c.Value == nil || c.Value.ExactString() != "1" {
			continue
		}
		if b.Y.Parent() == nil || b.Y.(ssa.Instruction).Block() == h {
			continue
		}
		return a, b.Y
	}
	return nil, nil
}

// autoRangeInv is the default invariant of a range loop: -1 <= rangeindex <= len-1. It is
// proved like a written invariant (on entry and at every back edge), then assumed.
func (fc *FuncCtx) autoRangeInv(li *loopInfo, st *State) string {
	a, n := rangeBounds(li.Header)
	if a == nil || fc.escaping[a] {
		return ""
	}
	nv, ok := fc.vals[n]
	if !ok || nv.T == "" {
		return ""
	}
	key := cellKey(a)
	if _, ok := fc.compSort[key]; !ok {
		return ""
	}
	ri := fc.get(st, key)
	return "(and (<= (- 1) " + ri + ") (or (< " + ri + " " + nv.T + ") (= " + ri + " (- 1))))"
}

// discover runs the loop body once in a sandbox to learn which components it writes.
func (fc *FuncCtx) discover(li *loopInfo, st *State, reach string) []string {
	saveScript, saveFresh := len(fc.script), fc.nfresh
	saveTouched := fc.touched
	saveCounters := map[string]int{}
	for k, v := range fc.counters {
		saveCounters[k] = v
	}
	saveVals := map[ssa.Value]Val{}
	for k, v := range fc.vals {
		saveVals[k] = v
	}
	saveCallOrd := map[string]int{}
	for k, v := range fc.callOrd {
		saveCallOrd[k] = v
	}
	saveEdge := fc.edgeCond
	saveOut := fc.outSt
	saveHdr := len(fc.specHdr)
	_ = saveHdr
	fc.edgeCond = map[[2]*ssa.BasicBlock]string{}
	fc.outSt = map[*ssa.BasicBlock]*State{}
	fc.touched = map[string]bool{}
	fc.sandbox++
	func() {
		defer func() {
			fc.sandbox--
		}()
		fc.run(li.Body, li.Header, st, reach, true)
	}()
	var keys []string
	for k := range fc.touched {
		keys = append(keys, k)
	}
	sort.Strings(keys)
	for k := range fc.touched {
		saveTouched[k] = true
	}
	fc.touched = saveTouched
	fc.script = fc.script[:saveScript]
	fc.nfresh = saveFresh
	fc.counters = saveCounters
	fc.callOrd = saveCallOrd
	fc.vals = saveVals
	fc.edgeCond = saveEdge
	fc.outSt = saveOut
	// inner loops keep their discovered modsets (they do not depend on the state)
	for _, l2 := range fc.loopList {
		if l2 != li && li.Body[l2.Header] {
			l2.headSt, l2.preSt, l2.variant = nil, nil, ""
		}
	}
	return keys
}

func (fc *FuncCtx) backEdge(from *ssa.BasicBlock, li *loopInfo, st *State, cond string) {
	env := fc.bodyEnv(st, li.Header)
	env.pre = li.preSt
	suffix := ""
	n := 0
	for _, p := range li.Header.Preds {
		if isBackEdge(p, li.Header) {
			if p == from {
				break
			}
			n++
		}
	}
	if n > 0 {
		suffix = fmt.Sprintf("#%d", n)
	}
	env.at = from
	fc.applyHints(env, li.Spec.Hints, fmt.Sprintf("%s/hint%%d%s", fc.loopName(li), suffix), cond)
	env.at = li.Header
	for j, inv := range li.Spec.Invariants {
		g := fc.evalBool(env, inv.E)
		fc.oblige(fmt.Sprintf("%s/inv%d/preserved%s", fc.loopName(li), j, suffix), "inv", cond, g, token.NoPos, inv.Text)
	}
	if g := fc.autoRangeInv(li, st); g != "" {
		fc.oblige(fmt.Sprintf("%s/rangeinv/preserved%s", fc.loopName(li), suffix), "inv", cond, g, token.NoPos, "-1 <= rangeindex && (rangeindex < len || rangeindex == -1) (default invariant of a range loop)")
	}
	if li.Spec.Decreases != nil {
		v := fc.evalInt(env, li.Spec.Decreases.E)
		fc.oblige(fmt.Sprintf("%s/decreases%s", fc.loopName(li), suffix), "decreases", cond, "(and (<= 0 "+li.variant+") (< "+v+" "+li.variant+"))", token.NoPos, li.Spec.Decreases.Text)
	}
}

// probe adds a vacuity probe: the assumptions made so far on this path must not be contradictory.
func (fc *FuncCtx) probe(name, reach string) {
	if fc.sandbox > 0 || reach == "false" {
		return
	}
	fc.obls = append(fc.obls, &Obligation{Name: fc.Key + "/" + name, Func: fc.Key, Kind: "vacuity", Goal: "false", Reach: reach, N: len(fc.script), fc: fc, Text: "probe: the path condition and assumptions must be satisfiable"})
}

// applyHints proves each hint at the current point and then assumes it. A hint
// that mentions a variable not in scope at this point is skipped.
func (fc *FuncCtx) applyHints(env *Env, hints []*Clause, nameFmt, reach string) {
	for j, h := range hints {
		g, ok := fc.tryEvalBool(env, h.E)
		if !ok {
			continue
		}
		fc.oblige(fmt.Sprintf(nameFmt, j), "hint", reach, g, token.NoPos, h.Text)
		fc.assume(reach, g)
	}
}

func (fc *FuncCtx) tryEvalBool(env *Env, e Expr) (t string, ok bool) {
	defer func() {
		if r := recover(); r != nil {
			if se, is := r.(specErr); is && strings.Contains(string(se), "unknown identifier") {
				ok = false
				return
			}
			panic(r)
		}
	}()
	return fc.evalBool(env, e), true
}

func (fc *FuncCtx) execBlock(b *ssa.BasicBlock, st *State, reach string) {
	// phis first (they read edge conditions)
	for _, ins := range b.Instrs {
		phi, ok := ins.(*ssa.Phi)
		if !ok {
			break
		}
		fc.execPhi(b, phi)
	}
	for _, ins := range b.Instrs {
		if _, ok := ins.(*ssa.Phi); ok {
			continue
		}
		switch x := ins.(type) {
		case *ssa.If:
			c := fc.val(st, x.Cond).T
			c = fc.define("Bool", c, "cond")
			fc.setEdge(b, b.Succs[0], st, and(reach, c))
			fc.setEdge(b, b.Succs[1], st, and(reach, not(c)))
		case *ssa.Jump:
			fc.setEdge(b, b.Succs[0], st, reach)
		case *ssa.Return:
			fc.execReturn(x, st, reach)
		case *ssa.Panic:
			fc.oblige(fmt.Sprintf("panic#%d/unreachable", fc.ord("panic")), "panic", reach, "false", x.Pos(), "explicit panic must be unreachable")
		default:
			fc.execInstr(ins, st, reach)
		}
	}
	fc.outSt[b] = st
}

func (fc *FuncCtx) setEdge(from, to *ssa.BasicBlock, st *State, cond string) {
	key := [2]*ssa.BasicBlock{from, to}
	if prev, ok := fc.edgeCond[key]; ok {
		cond = or(prev, cond) // both branches of an If go to the same block
	}
	cond = fc.define("Bool", cond, fmt.Sprintf("edge_%d_%d", from.Index, to.Index))
	fc.edgeCond[key] = cond
	if isBackEdge(from, to) {
		if li := fc.loops[to]; li != nil && li.headSt != nil {
			fc.backEdge(from, li, st, cond)
		}
	}
}

func (fc *FuncCtx) execPhi(b *ssa.BasicBlock, phi *ssa.Phi) {
	var terms, conds []string
	var first Val
	got := false
	for i, p := range b.Preds {
		c, ok := fc.edgeCond[[2]*ssa.BasicBlock{p, b}]
		if !ok {
			continue
		}
		v := fc.val(nil, phi.Edges[i])
		if v.LV != nil || v.Fn != nil {
			panic(unsupported("phi of address or function value"))
		}
		if !got {
			first, got = v, true
		}
		terms = append(terms, v.T)
		conds = append(conds, c)
	}
	if !got {
		fc.vals[phi] = Val{T: fc.S.Zero(phi.Type()), Ty: phi.Type()}
		return
	}
	_ = first
	t := terms[len(terms)-1]
	for i := len(terms) - 2; i >= 0; i-- {
		t = "(ite " + conds[i] + " " + terms[i] + " " + t + ")"
	}
	fc.vals[phi] = Val{T: fc.define(fc.S.SortOf(phi.Type()), t, "phi"), Ty: phi.Type()}
}

func (fc *FuncCtx) execReturn(ret *ssa.Return, st *State, reach string) {
	if fc.inl != nil {
		// a return point of an inlined callee: hand state and results back to the call site
		var results []Val
		for _, r := range ret.Results {
			results = append(results, fc.val(st, r))
		}
		fc.inl.rets = append(fc.inl.rets, inlineRet{reach: reach, st: st.clone(), results: results})
		return
	}
	k := fc.nRet
	fc.nRet++
	suffix := ""
	if k > 0 {
		suffix = fmt.Sprintf("#%d", k)
	}
	if fc.C == nil {
		return
	}
	env := fc.funcEnv(st)
	var results []Val
	for _, r := range ret.Results {
		results = append(results, fc.val(st, r))
	}
	fc.bindResults(env, results)
	if len(fc.C.RetHints) > 0 {
		henv := fc.bodyEnv(st, ret.Block())
		fc.bindResults(henv, results)
		fc.applyHints(henv, fc.C.RetHints, "rethint%d"+suffix, reach)
	}
	for j, e := range fc.C.Ensures {
		g := fc.evalBool(env, e.E)
		before := len(fc.obls)
		fc.oblige(fmt.Sprintf("post%d%s", j, suffix), "post", reach, g, ret.Pos(), e.Text)
		if len(fc.obls) > before {
			for _, rv := range results {
				fc.obls[len(fc.obls)-1].ResultTerms = append(fc.obls[len(fc.obls)-1].ResultTerms, rv.T)
			}
		}
	}
	fc.frameObligations(st, reach, suffix, ret.Pos())
}

func (fc *FuncCtx) bindResults(env *Env, results []Val) {
	for i, r := range results {
		env.vars[fmt.Sprintf("result%d", i)] = r
	}
	if len(results) >= 1 {
		env.vars["result"] = results[0]
	}
	// named results
	if sig := fc.Fn.Signature; sig.Results() != nil {
		for i := 0; i < sig.Results().Len() && i < len(results); i++ {
			if n := sig.Results().At(i).Name(); n != "" && n != "_" {
				env.vars[n] = results[i]
			}
		}
	}
}
