package vc

// Parser of the //@ contract files (comment-only Go files behind the build tag
// `verif`, or *.contract files under /verif/contracts for code outside /repo).

import (
	"fmt"
	"os"
	"path/filepath"
	"regexp"
	"sort"
	"strconv"
	"strings"
)

type Clause struct {
	Kind string // requires ensures modifies invariant decreases assume(callsite) ...
	Text string
	E    Expr
	File string
	Line int
}

type LoopSpec struct {
	Hints      []*Clause
	Invariants []*Clause
	Decreases  *Clause
	// explicit extra havoc targets (rare)
}

type CallSpec struct { // contract a function gives for a function-typed parameter
	Param    string
	Args     []string
	Requires []*Clause
}

type SiteSpec struct { // assumed behaviour of an uncontracted (external) call at ordinal N
	Hints    []*Clause
	Assumes  []*Clause
	Modifies []string
	Requires []*Clause
}

type FuncContract struct {
	Name     string // key: "Flatten", "Range.Contains", "Stack.Push", "Flatten$1", "runtime:_Find"
	Pkg      string // package path the contract file belongs to ("" for external files that give full keys)
	Requires []*Clause
	Ensures  []*Clause
	Modifies []string
	News     []string // types the function may allocate / initialise
	Loops    map[int]*LoopSpec
	Calls    map[string]*CallSpec
	Sites    map[string]*SiteSpec
	Lets     []LetDef
	Skip     []string
	RetHints []*Clause
	Tables   []string // package-level slice variables whose literal initial contents are assumed
	EntryHints []*Clause
	Trusted  bool // contract is assumed, body not verified (listed in evidence)
	Pure     bool
	Asserts  []*Clause // extra proof hints: "assert at return"...
	Uses     map[string][]string
	File     string
	Line     int
	Decr     *Clause // recursion measure
	Ghosts   []GhostVar
	Updates  map[string][]GhostUpdate // ghost updates keyed by anchor ("call 3", "loop 0 head"...)
}

type GhostVar struct {
	Name string
	Type TypeExpr
	Init Expr
}
type GhostUpdate struct {
	Var string
	E   Expr
}

type LetDef struct {
	Name string
	E    Expr
}

type PureFunc struct {
	Name   string
	Params []Binder
	Result TypeExpr
	Body   Expr // nil for uninterpreted (ghost func)
	Content string   // "content" / "injective": the ghost function of one slice argument depends only on (is determined by) the slice's elements
	Reads  []string // heap components an uninterpreted ghost function depends on (ghost state)
	Opaque bool // uninterpreted symbol with a definitional axiom (E-matching anchor)
	Pkg    string
	File   string
	Line   int
}

type Axiom struct {
	Name string
	E    Expr
	Pkg  string
	File string
	Line int
}

type Lemma struct {
	Name     string
	Params   []Binder
	Requires []*Clause
	Ensures  []*Clause
	Pkg      string
	File     string
	Line     int
}

type ContractSet struct {
	Funcs  map[string]*FuncContract // key = pkgpath + "." + Name
	Pures  map[string]*PureFunc     // key = pkgpath + "." + name, and bare name for prelude
	Axioms []*Axiom
	Lemmas []*Lemma
	Files  []string
}

func NewContractSet() *ContractSet {
	return &ContractSet{Funcs: map[string]*FuncContract{}, Pures: map[string]*PureFunc{}}
}

var clauseKeywords = map[string]bool{
	"func": true, "pure": true, "ghost": true, "opaque": true, "axiom": true, "lemma": true,
	"requires": true, "ensures": true, "modifies": true, "news": true, "loop": true, "calls": true,
	"call": true, "let": true, "skip": true, "return": true, "hint": true, "tables": true, "trusted": true, "decreases": true, "package": true, "end": true,
}

var pkgLineRe = regexp.MustCompile(`(?m)^package\s+(\w+)`)

// LoadContractFile parses one file. pkgPath is the import path of the package
// the file sits in (for /repo files) or "" for external contract files, which
// must then use a `//@ package <path>` line.
func (cs *ContractSet) LoadContractFile(path, pkgPath string) error {
	data, err := os.ReadFile(path)
	if err != nil {
		return err
	}
	cs.Files = append(cs.Files, path)
	type rawClause struct {
		text string
		line int
	}
	var raws []rawClause
	for i, ln := range strings.Split(string(data), "\n") {
		t := strings.TrimSpace(ln)
		if !strings.HasPrefix(t, "//@") {
			continue
		}
		body := strings.TrimSpace(t[3:])
		if body == "" {
			continue
		}
		// strip trailing "// comment"
		if k := strings.Index(body, " //"); k >= 0 {
			body = strings.TrimSpace(body[:k])
		}
		if strings.HasPrefix(body, "//") {
			continue
		}
		first := body
		if k := strings.IndexAny(body, " \t"); k >= 0 {
			first = body[:k]
		}
		if clauseKeywords[first] || len(raws) == 0 {
			raws = append(raws, rawClause{body, i + 1})
		} else {
			raws[len(raws)-1].text += " " + body
		}
	}
	var cur *FuncContract
	var curLemma *Lemma
	mk := func(kind, text string, line int) (*Clause, error) {
		e, err := ParseExpr(text)
		if err != nil {
			return nil, fmt.Errorf("%s:%d: %v", path, line, err)
		}
		return &Clause{Kind: kind, Text: text, E: e, File: path, Line: line}, nil
	}
	for _, rc := range raws {
		kw, rest := splitWord(rc.text)
		switch kw {
		case "package":
			pkgPath = rest
			cur, curLemma = nil, nil
		case "func":
			name := strings.TrimSpace(rest)
			cur = &FuncContract{Name: name, Pkg: pkgPath, Loops: map[int]*LoopSpec{}, Calls: map[string]*CallSpec{}, Sites: map[string]*SiteSpec{}, File: path, Line: rc.line, Updates: map[string][]GhostUpdate{}}
			curLemma = nil
			key := pkgPath + "." + name
			if _, dup := cs.Funcs[key]; dup {
				return fmt.Errorf("%s:%d: duplicate contract for %s", path, rc.line, key)
			}
			cs.Funcs[key] = cur
		case "trusted":
			if cur == nil {
				return fmt.Errorf("%s:%d: trusted outside func", path, rc.line)
			}
			cur.Trusted = true
		case "skip":
			if cur == nil {
				return fmt.Errorf("%s:%d: skip outside func", path, rc.line)
			}
			cur.Skip = append(cur.Skip, strings.Fields(rest)...)
		case "pure", "ghost", "opaque":
			// pure func name(params) T = expr      |   ghost func name(params) T
			if kw == "pure" && rest == "" {
				if cur == nil {
					return fmt.Errorf("%s:%d: pure outside func", path, rc.line)
				}
				cur.Pure = true
				continue
			}
			w, r2 := splitWord(rest)
			if w != "func" {
				return fmt.Errorf("%s:%d: expected 'func' after %s", path, rc.line, kw)
			}
			var reads []string
			content := ""
			for _, suf := range []string{" injective content", " content"} {
				if kw == "ghost" && strings.HasSuffix(r2, suf) {
					content = strings.TrimSpace(suf)
					r2 = strings.TrimSpace(strings.TrimSuffix(r2, suf))
					break
				}
			}
			if k := strings.Index(r2, " reads "); k > 0 && kw == "ghost" {
				for _, x := range splitTop(r2[k+7:]) {
					reads = append(reads, strings.TrimSpace(x))
				}
				r2 = strings.TrimSpace(r2[:k])
			}
			pf, err := parsePureSig(r2)
			if err != nil {
				return fmt.Errorf("%s:%d: %v", path, rc.line, err)
			}
			pf.Reads = reads
			pf.Content = content
			pf.Pkg, pf.File, pf.Line = pkgPath, path, rc.line
			pf.Opaque = kw == "opaque"
			if kw == "ghost" && pf.Body != nil {
				return fmt.Errorf("%s:%d: ghost func with body", path, rc.line)
			}
			cs.Pures[pkgPath+"."+pf.Name] = pf
			cur, curLemma = nil, nil
		case "axiom":
			name, r2 := "", rest
			if k := strings.Index(rest, ":"); k > 0 && !strings.ContainsAny(rest[:k], " (") {
				name, r2 = rest[:k], strings.TrimSpace(rest[k+1:])
			}
			e, err := ParseExpr(r2)
			if err != nil {
				return fmt.Errorf("%s:%d: %v", path, rc.line, err)
			}
			cs.Axioms = append(cs.Axioms, &Axiom{Name: name, E: e, Pkg: pkgPath, File: path, Line: rc.line})
			cur, curLemma = nil, nil
		case "lemma":
			pf, err := parsePureSig(rest + " bool")
			if err != nil {
				return fmt.Errorf("%s:%d: %v", path, rc.line, err)
			}
			curLemma = &Lemma{Name: pf.Name, Params: pf.Params, Pkg: pkgPath, File: path, Line: rc.line}
			cs.Lemmas = append(cs.Lemmas, curLemma)
			cur = nil
		case "requires", "ensures":
			c, err := mk(kw, rest, rc.line)
			if err != nil {
				return err
			}
			switch {
			case curLemma != nil:
				if kw == "requires" {
					curLemma.Requires = append(curLemma.Requires, c)
				} else {
					curLemma.Ensures = append(curLemma.Ensures, c)
				}
			case cur != nil:
				if kw == "requires" {
					cur.Requires = append(cur.Requires, c)
				} else {
					cur.Ensures = append(cur.Ensures, c)
				}
			default:
				return fmt.Errorf("%s:%d: %s outside func/lemma", path, rc.line, kw)
			}
		case "decreases":
			c, err := mk(kw, rest, rc.line)
			if err != nil {
				return err
			}
			if cur == nil {
				return fmt.Errorf("%s:%d: decreases outside func", path, rc.line)
			}
			cur.Decr = c
		case "modifies":
			if cur == nil {
				return fmt.Errorf("%s:%d: modifies outside func", path, rc.line)
			}
			for _, m := range splitTop(rest) {
				cur.Modifies = append(cur.Modifies, strings.TrimSpace(m))
			}
		case "news":
			if cur == nil {
				return fmt.Errorf("%s:%d: news outside func", path, rc.line)
			}
			for _, m := range splitTop(rest) {
				cur.News = append(cur.News, strings.TrimSpace(m))
			}
		case "let":
			if cur == nil {
				return fmt.Errorf("%s:%d: let outside func", path, rc.line)
			}
			k := strings.Index(rest, "=")
			if k < 0 {
				return fmt.Errorf("%s:%d: let without '='", path, rc.line)
			}
			e, err := ParseExpr(rest[k+1:])
			if err != nil {
				return fmt.Errorf("%s:%d: %v", path, rc.line, err)
			}
			cur.Lets = append(cur.Lets, LetDef{strings.TrimSpace(rest[:k]), e})
		case "loop":
			// loop N invariant e | loop N decreases e
			if cur == nil {
				return fmt.Errorf("%s:%d: loop outside func", path, rc.line)
			}
			ns, r2 := splitWord(rest)
			ns = strings.TrimSuffix(ns, ":")
			n, err := strconv.Atoi(ns)
			if err != nil {
				return fmt.Errorf("%s:%d: bad loop ordinal %q", path, rc.line, ns)
			}
			k2, r3 := splitWord(r2)
			ls := cur.Loops[n]
			if ls == nil {
				ls = &LoopSpec{}
				cur.Loops[n] = ls
			}
			c, err := mk(k2, r3, rc.line)
			if err != nil {
				return err
			}
			switch k2 {
			case "invariant":
				ls.Invariants = append(ls.Invariants, c)
			case "decreases":
				ls.Decreases = c
			case "hint":
				ls.Hints = append(ls.Hints, c)
			default:
				return fmt.Errorf("%s:%d: unknown loop clause %q", path, rc.line, k2)
			}
		case "calls":
			// calls onChange(o, a, b, c) requires e
			if cur == nil {
				return fmt.Errorf("%s:%d: calls outside func", path, rc.line)
			}
			k := strings.Index(rest, "(")
			k2 := strings.Index(rest, ")")
			if k < 0 || k2 < k {
				return fmt.Errorf("%s:%d: malformed calls clause", path, rc.line)
			}
			pname := strings.TrimSpace(rest[:k])
			var args []string
			for _, a := range strings.Split(rest[k+1:k2], ",") {
				if a = strings.TrimSpace(a); a != "" {
					args = append(args, a)
				}
			}
			w, r3 := splitWord(strings.TrimSpace(rest[k2+1:]))
			if w != "requires" {
				return fmt.Errorf("%s:%d: calls: expected requires", path, rc.line)
			}
			c, err := mk("requires", r3, rc.line)
			if err != nil {
				return err
			}
			sp := cur.Calls[pname]
			if sp == nil {
				sp = &CallSpec{Param: pname, Args: args}
				cur.Calls[pname] = sp
			}
			sp.Requires = append(sp.Requires, c)
		case "call":
			// call N assume e | call N modifies x | call N requires e
			if cur == nil {
				return fmt.Errorf("%s:%d: call outside func", path, rc.line)
			}
			cname, r1 := splitWord(rest)
			ns, r2 := splitWord(r1)
			ns = strings.TrimSuffix(ns, ":")
			if _, err := strconv.Atoi(ns); err != nil {
				return fmt.Errorf("%s:%d: bad call ordinal %q (syntax: call <callee> <n> assume|requires|modifies ...)", path, rc.line, ns)
			}
			n := cname + "#" + ns
			k2, r3 := splitWord(r2)
			ss := cur.Sites[n]
			if ss == nil {
				ss = &SiteSpec{}
				cur.Sites[n] = ss
			}
			switch k2 {
			case "assume":
				c, err := mk("assume", r3, rc.line)
				if err != nil {
					return err
				}
				ss.Assumes = append(ss.Assumes, c)
			case "requires":
				c, err := mk("requires", r3, rc.line)
				if err != nil {
					return err
				}
				ss.Requires = append(ss.Requires, c)
			case "modifies":
				for _, m := range splitTop(r3) {
					ss.Modifies = append(ss.Modifies, strings.TrimSpace(m))
				}
			case "hint":
				c, err := mk("hint", r3, rc.line)
				if err != nil {
					return err
				}
				ss.Hints = append(ss.Hints, c)
			default:
				return fmt.Errorf("%s:%d: unknown call clause %q", path, rc.line, k2)
			}
		case "tables":
			if cur == nil {
				return fmt.Errorf("%s:%d: tables outside func", path, rc.line)
			}
			cur.Tables = append(cur.Tables, strings.Fields(strings.ReplaceAll(rest, ",", " "))...)
		case "hint":
			if cur == nil {
				return fmt.Errorf("%s:%d: hint outside func", path, rc.line)
			}
			c, err := mk("hint", rest, rc.line)
			if err != nil {
				return err
			}
			cur.EntryHints = append(cur.EntryHints, c)
		case "return":
			// return hint e
			if cur == nil {
				return fmt.Errorf("%s:%d: return outside func", path, rc.line)
			}
			k2, r3 := splitWord(rest)
			if k2 != "hint" {
				return fmt.Errorf("%s:%d: expected 'return hint'", path, rc.line)
			}
			c, err := mk("hint", r3, rc.line)
			if err != nil {
				return err
			}
			cur.RetHints = append(cur.RetHints, c)
		case "end":
			cur, curLemma = nil, nil
		default:
			return fmt.Errorf("%s:%d: unknown clause %q", path, rc.line, rc.text)
		}
	}
	return nil
}

func splitWord(s string) (string, string) {
	s = strings.TrimSpace(s)
	if k := strings.IndexAny(s, " \t"); k >= 0 {
		return s[:k], strings.TrimSpace(s[k+1:])
	}
	return s, ""
}

// splitTop splits on commas that are not inside brackets.
func splitTop(s string) []string {
	var out []string
	depth, start := 0, 0
	for i, c := range s {
		switch c {
		case '(', '[', '{':
			depth++
		case ')', ']', '}':
			depth--
		case ',':
			if depth == 0 {
				out = append(out, s[start:i])
				start = i + 1
			}
		}
	}
	out = append(out, s[start:])
	return out
}

// parsePureSig parses `name(a T, b U) R = expr` or `name(a T) R`.
func parsePureSig(s string) (*PureFunc, error) {
	k := strings.Index(s, "(")
	if k < 0 {
		return nil, fmt.Errorf("malformed signature %q", s)
	}
	name := strings.TrimSpace(s[:k])
	depth, k2 := 0, -1
	for i := k; i < len(s); i++ {
		if s[i] == '(' {
			depth++
		} else if s[i] == ')' {
			depth--
			if depth == 0 {
				k2 = i
				break
			}
		}
	}
	if k2 < 0 {
		return nil, fmt.Errorf("malformed signature %q", s)
	}
	pf := &PureFunc{Name: name}
	ps := strings.TrimSpace(s[k+1 : k2])
	if ps != "" {
		// reuse the quantifier binder parser
		toks, err := lex(ps)
		if err != nil {
			return nil, err
		}
		p := &parser{toks: toks, src: ps}
		var perr error
		func() {
			defer func() {
				if r := recover(); r != nil {
					perr = fmt.Errorf("%v in %q", r, ps)
				}
			}()
			for {
				var names []string
				for {
					t := p.next()
					if t.kind != "ident" {
						p.fail("expected parameter name")
					}
					names = append(names, t.text)
					if !p.accept(",") {
						break
					}
				}
				ty := p.typeExpr()
				for _, n := range names {
					pf.Params = append(pf.Params, Binder{n, ty})
				}
				if !p.accept(",") {
					break
				}
			}
			if p.peek().kind != "eof" {
				p.fail("trailing tokens in parameter list")
			}
		}()
		if perr != nil {
			return nil, perr
		}
	}
	rest := strings.TrimSpace(s[k2+1:])
	body := ""
	if e := strings.Index(rest, "="); e >= 0 && !strings.HasPrefix(rest[e:], "==") {
		body = strings.TrimSpace(rest[e+1:])
		rest = strings.TrimSpace(rest[:e])
	}
	toks, err := lex(rest)
	if err != nil {
		return nil, err
	}
	p := &parser{toks: toks, src: rest}
	var perr error
	func() {
		defer func() {
			if r := recover(); r != nil {
				perr = fmt.Errorf("%v in %q", r, rest)
			}
		}()
		pf.Result = p.typeExpr()
	}()
	if perr != nil {
		return nil, perr
	}
	if body != "" {
		e, err := ParseExpr(body)
		if err != nil {
			return nil, err
		}
		pf.Body = e
	}
	return pf, nil
}

// LoadRepoContracts walks root for zz_contracts_verif.go files.
func (cs *ContractSet) LoadRepoContracts(root, modPath string) error {
	var files []string
	err := filepath.Walk(root, func(p string, info os.FileInfo, err error) error {
		if err != nil {
			return err
		}
		if info.IsDir() && (info.Name() == ".git" || info.Name() == "testdata") {
			return filepath.SkipDir
		}
		if !info.IsDir() && info.Name() == "zz_contracts_verif.go" {
			files = append(files, p)
		}
		return nil
	})
	if err != nil {
		return err
	}
	sort.Strings(files)
	for _, f := range files {
		rel, _ := filepath.Rel(root, filepath.Dir(f))
		pkg := modPath
		if rel != "." {
			pkg = modPath + "/" + filepath.ToSlash(rel)
		}
		if err := cs.LoadContractFile(f, pkg); err != nil {
			return err
		}
	}
	return nil
}

func (cs *ContractSet) LoadDir(dir string) error {
	ents, err := os.ReadDir(dir)
	if err != nil {
		if os.IsNotExist(err) {
			return nil
		}
		return err
	}
	for _, e := range ents {
		if strings.HasSuffix(e.Name(), ".contract") {
			if err := cs.LoadContractFile(filepath.Join(dir, e.Name()), ""); err != nil {
				return err
			}
		}
	}
	return nil
}
