package vc

import (
	"bytes"
	"context"
	"fmt"
	"go/types"
	"os"
	"os/exec"
	"path/filepath"
	"sort"
	"strings"
	"sync"
	"time"
)

// ---- sorts -----------------------------------------------------------------

// Sorts maps Go types to SMT sorts and collects the datatype declarations
// needed. One instance per verified function (queries are self-contained).
type Sorts struct {
	decls     []string          // datatype declarations in dependency order
	structs   map[string]string // Go type string -> datatype name
	fields    map[string][]fieldInfo
	boxes     map[string]int // Go type string -> tag
	boxOrder  []string
	boxSort   map[string]string
	boxTy     map[string]types.Type
	strLits   map[string]string
	strOrder  []string
	usesIface bool
	usesStr   bool
	named     map[string]int
}

type fieldInfo struct {
	Name string
	Sort string
	Ty   types.Type
}

func NewSorts() *Sorts {
	return &Sorts{structs: map[string]string{}, fields: map[string][]fieldInfo{}, boxes: map[string]int{}, boxSort: map[string]string{}, boxTy: map[string]types.Type{}, strLits: map[string]string{}, named: map[string]int{}}
}

func sanitize(s string) string {
	var b strings.Builder
	for _, c := range s {
		switch {
		case c >= 'a' && c <= 'z', c >= 'A' && c <= 'Z', c >= '0' && c <= '9', c == '_':
			b.WriteRune(c)
		default:
			b.WriteByte('_')
		}
	}
	return b.String()
}

func shortTypeName(t types.Type) string {
	s := types.TypeString(t, func(p *types.Package) string { return p.Name() })
	return sanitize(s)
}

func intInfo(t types.Type) (bits int, signed bool, ok bool) {
	b, isB := t.Underlying().(*types.Basic)
	if !isB {
		return 0, false, false
	}
	switch b.Kind() {
	case types.Int, types.Int64:
		return 64, true, true
	case types.Int8:
		return 8, true, true
	case types.Int16:
		return 16, true, true
	case types.Int32:
		return 32, true, true
	case types.Uint, types.Uint64, types.Uintptr:
		return 64, false, true
	case types.Uint8:
		return 8, false, true
	case types.Uint16:
		return 16, false, true
	case types.Uint32:
		return 32, false, true
	case types.UntypedInt, types.UntypedRune:
		return 0, true, true
	}
	return 0, false, false
}

func pow2(n int) string {
	// exact decimal of 2^n for n <= 64
	v := new(bigInt).setPow2(n)
	return v.String()
}

func intRange(bits int, signed bool) (lo, hi string) {
	if signed {
		return "(- " + pow2(bits-1) + ")", new(bigInt).setPow2(bits - 1).subOne().String()
	}
	return "0", new(bigInt).setPow2(bits).subOne().String()
}

func (s *Sorts) SortOf(t types.Type) string {
	switch u := t.Underlying().(type) {
	case *types.Basic:
		switch {
		case u.Info()&types.IsBoolean != 0:
			return "Bool"
		case u.Info()&types.IsInteger != 0:
			return "Int"
		case u.Info()&types.IsString != 0:
			s.usesStr = true
			return "Str"
		case u.Kind() == types.UnsafePointer || u.Kind() == types.UntypedNil:
			return "Int"
		case u.Info()&types.IsFloat != 0:
			return "Real"
		}
	case *types.Pointer, *types.Map, *types.Chan, *types.Signature:
		return "Int"
	case *types.Slice:
		return "Slice"
	case *types.Interface:
		s.usesIface = true
		return "Iface"
	case *types.Array:
		return "(Array Int " + s.SortOf(u.Elem()) + ")"
	case *types.Struct:
		key := types.TypeString(t, nil)
		if n, ok := s.structs[key]; ok {
			return n
		}
		base := "S_" + shortTypeName(t)
		if len(base) > 60 {
			base = base[:60]
		}
		name := base
		if k := s.named[base]; k > 0 {
			name = fmt.Sprintf("%s_%d", base, k)
		}
		s.named[base]++
		s.structs[key] = name
		var fs []fieldInfo
		for i := 0; i < u.NumFields(); i++ {
			f := u.Field(i)
			fs = append(fs, fieldInfo{Name: f.Name(), Sort: s.SortOf(f.Type()), Ty: f.Type()})
		}
		s.fields[name] = fs
		var b strings.Builder
		fmt.Fprintf(&b, "(declare-datatypes ((%s 0)) (((mk-%s", name, name)
		for i, f := range fs {
			fmt.Fprintf(&b, " (%s-f%d %s)", name, i, f.Sort)
		}
		b.WriteString("))))")
		s.decls = append(s.decls, b.String())
		return name
	case *types.Tuple:
		if u.Len() == 0 {
			return "Bool"
		}
	}
	panic(unsupported(fmt.Sprintf("no SMT sort for type %s", t)))
}

func (s *Sorts) Zero(t types.Type) string {
	switch u := t.Underlying().(type) {
	case *types.Basic:
		switch {
		case u.Info()&types.IsBoolean != 0:
			return "false"
		case u.Info()&types.IsInteger != 0:
			return "0"
		case u.Info()&types.IsString != 0:
			return s.StrLit("")
		case u.Info()&types.IsFloat != 0:
			return "0.0"
		}
		return "0"
	case *types.Pointer, *types.Map, *types.Chan, *types.Signature:
		return "0"
	case *types.Slice:
		return "(mk-slice 0 0 0 0)"
	case *types.Interface:
		s.usesIface = true
		return "iface_nil"
	case *types.Array:
		return "((as const " + s.SortOf(t) + ") " + s.Zero(u.Elem()) + ")"
	case *types.Struct:
		name := s.SortOf(t)
		if u.NumFields() == 0 {
			return "mk-" + name
		}
		var parts []string
		for i := 0; i < u.NumFields(); i++ {
			parts = append(parts, s.Zero(u.Field(i).Type()))
		}
		return "(mk-" + name + " " + strings.Join(parts, " ") + ")"
	}
	panic(unsupported(fmt.Sprintf("no zero value for type %s", t)))
}

func (s *Sorts) StrLit(v string) string {
	s.usesStr = true
	if n, ok := s.strLits[v]; ok {
		return n
	}
	n := fmt.Sprintf("strlit%d", len(s.strOrder))
	s.strLits[v] = n
	s.strOrder = append(s.strOrder, v)
	return n
}

// Box returns the tag and the box/unbox function names for a concrete type.
func (s *Sorts) Box(t types.Type) (tag int, box, unbox string) {
	s.usesIface = true
	key := types.TypeString(t, nil)
	tg, ok := s.boxes[key]
	if !ok {
		tg = len(s.boxOrder) + 1
		s.boxes[key] = tg
		s.boxOrder = append(s.boxOrder, key)
		s.boxSort[key] = s.SortOf(t)
		s.boxTy[key] = t
	}
	return tg, fmt.Sprintf("box%d", tg), fmt.Sprintf("unbox%d", tg)
}

func (s *Sorts) Field(t types.Type, i int) (sel string, f fieldInfo) {
	name := s.SortOf(t)
	fs := s.fields[name]
	return fmt.Sprintf("%s-f%d", name, i), fs[i]
}

// PromotedPath finds field fname in t or, one level down, in an embedded struct
// field; it returns the index path.
func (s *Sorts) PromotedPath(t types.Type, fname string) ([]int, []types.Type, bool) {
	st, ok := t.Underlying().(*types.Struct)
	if !ok {
		return nil, nil, false
	}
	for i := 0; i < st.NumFields(); i++ {
		if st.Field(i).Name() == fname {
			return []int{i}, []types.Type{t}, true
		}
	}
	for i := 0; i < st.NumFields(); i++ {
		f := st.Field(i)
		if !f.Embedded() {
			continue
		}
		if inner, ok := f.Type().Underlying().(*types.Struct); ok {
			for j := 0; j < inner.NumFields(); j++ {
				if inner.Field(j).Name() == fname {
					return []int{i, j}, []types.Type{t, f.Type()}, true
				}
			}
		}
	}
	return nil, nil, false
}

func (s *Sorts) FieldByName(t types.Type, fname string) (int, bool) {
	st, ok := t.Underlying().(*types.Struct)
	if !ok {
		return 0, false
	}
	for i := 0; i < st.NumFields(); i++ {
		if st.Field(i).Name() == fname {
			return i, true
		}
	}
	return 0, false
}

// UpdateField builds the datatype value equal to v except field i = nv.
func (s *Sorts) UpdateField(t types.Type, v string, i int, nv string) string {
	name := s.SortOf(t)
	fs := s.fields[name]
	parts := make([]string, len(fs))
	for k := range fs {
		if k == i {
			parts[k] = nv
		} else {
			parts[k] = fmt.Sprintf("(%s-f%d %s)", name, k, v)
		}
	}
	return "(mk-" + name + " " + strings.Join(parts, " ") + ")"
}

func (s *Sorts) Header() string {
	var b strings.Builder
	b.WriteString("(declare-datatypes ((Slice 0)) (((mk-slice (s-base Int) (s-off Int) (s-len Int) (s-cap Int)))))\n")
	b.WriteString("(declare-sort Str 0)\n(declare-fun strlen (Str) Int)\n(declare-fun strbyte (Str Int) Int)\n(declare-fun strcat (Str Str) Str)\n(declare-fun substr (Str Int Int) Str)\n")
	b.WriteString("(assert (forall ((s Str)) (! (>= (strlen s) 0) :pattern ((strlen s)))))\n")
	b.WriteString("(assert (forall ((s Str) (i Int)) (! (and (<= 0 (strbyte s i)) (<= (strbyte s i) 255)) :pattern ((strbyte s i)))))\n")
	b.WriteString("(assert (forall ((a Str) (b Str)) (! (= (strlen (strcat a b)) (+ (strlen a) (strlen b))) :pattern ((strcat a b)))))\n")
	b.WriteString("(assert (forall ((s Str) (i Int) (j Int)) (! (=> (and (<= 0 i) (<= i j) (<= j (strlen s))) (= (strlen (substr s i j)) (- j i))) :pattern ((substr s i j)))))\n")
	b.WriteString("(assert (forall ((s Str) (i Int) (j Int) (k Int)) (! (=> (and (<= 0 i) (<= i j) (<= j (strlen s)) (<= 0 k) (< k (- j i))) (= (strbyte (substr s i j) k) (strbyte s (+ i k)))) :pattern ((strbyte (substr s i j) k)))))\n")
	b.WriteString("(declare-sort Iface 0)\n(declare-const iface_nil Iface)\n(declare-fun dyntype (Iface) Int)\n(assert (= (dyntype iface_nil) 0))\n")
	b.WriteString("(assert (forall ((i Iface)) (! (=> (= (dyntype i) 0) (= i iface_nil)) :pattern ((dyntype i)))))\n")
	b.WriteString("(declare-fun bitand (Int Int) Int)\n(declare-fun bitor (Int Int) Int)\n(declare-fun bitxor (Int Int) Int)\n(declare-fun shl (Int Int) Int)\n(declare-fun shr (Int Int) Int)\n")
	b.WriteString("(assert (forall ((a Int) (b Int)) (! (=> (and (>= a 0) (>= b 0)) (and (>= (bitand a b) 0) (<= (bitand a b) a) (<= (bitand a b) b))) :pattern ((bitand a b)))))\n")
	b.WriteString("(define-fun tdiv ((a Int) (b Int)) Int (ite (>= a 0) (ite (> b 0) (div a b) (- (div a (- b)))) (ite (> b 0) (- (div (- a) b)) (div (- a) (- b)))))\n")
	b.WriteString("(define-fun tmod ((a Int) (b Int)) Int (- a (* b (tdiv a b))))\n")
	for _, d := range s.decls {
		b.WriteString(d)
		b.WriteByte('\n')
	}
	for i, v := range s.strOrder {
		fmt.Fprintf(&b, "(declare-const strlit%d Str)\n(assert (= (strlen strlit%d) %d))\n", i, i, len(v))
		if len(v) <= 16 {
			for k := 0; k < len(v); k++ {
				fmt.Fprintf(&b, "(assert (= (strbyte strlit%d %d) %d))\n", i, k, v[k])
			}
		}
	}
	if len(s.strOrder) > 1 {
		b.WriteString("(assert (distinct")
		for i := range s.strOrder {
			fmt.Fprintf(&b, " strlit%d", i)
		}
		b.WriteString("))\n")
	}
	for _, key := range s.boxOrder {
		tg := s.boxes[key]
		so := s.boxSort[key]
		fmt.Fprintf(&b, "(declare-fun box%d (%s) Iface)\n(declare-fun unbox%d (Iface) %s)\n", tg, so, tg, so)
		fmt.Fprintf(&b, "(assert (forall ((v %s)) (! (and (= (unbox%d (box%d v)) v) (= (dyntype (box%d v)) %d)) :pattern ((box%d v)))))\n", so, tg, tg, tg, tg, tg)
		fmt.Fprintf(&b, "(assert (forall ((i Iface)) (! (=> (= (dyntype i) %d) (= (box%d (unbox%d i)) i)) :pattern ((unbox%d i)))))\n", tg, tg, tg, tg)
	}
	return b.String()
}

// ---- tiny bigint (only powers of two up to 2^64) ------------------------------

type bigInt struct{ digits []int } // little endian base 10

func (b *bigInt) setPow2(n int) *bigInt {
	b.digits = []int{1}
	for i := 0; i < n; i++ {
		carry := 0
		for k := range b.digits {
			v := b.digits[k]*2 + carry
			b.digits[k] = v % 10
			carry = v / 10
		}
		if carry > 0 {
			b.digits = append(b.digits, carry)
		}
	}
	return b
}
func (b *bigInt) subOne() *bigInt {
	for k := range b.digits {
		if b.digits[k] > 0 {
			b.digits[k]--
			break
		}
		b.digits[k] = 9
	}
	for len(b.digits) > 1 && b.digits[len(b.digits)-1] == 0 {
		b.digits = b.digits[:len(b.digits)-1]
	}
	return b
}
func (b *bigInt) String() string {
	var sb strings.Builder
	for i := len(b.digits) - 1; i >= 0; i-- {
		sb.WriteByte(byte('0' + b.digits[i]))
	}
	return sb.String()
}

// ---- solver portfolio ----------------------------------------------------------

type SolverResult struct {
	Status  string // unsat sat unknown timeout error
	Backend string
	Time    float64
	Output  string
	Tried   []string
}

type Solver struct {
	Timeout time.Duration
	Dir     string // scratch dir for query files
	mu      sync.Mutex
	n       int
	Keep    bool
}

type backend struct {
	name string
	args func(file string, ms int) []string
	prep func(q string) string
}

func backends() []backend { return backendsSeed(0) }

// backendsSeed: the portfolio with a random seed (0: the solvers' defaults). Quantifier
// instantiation is incomplete, so a proof found with one seed can be missed with another;
// retries vary the seed instead of only waiting longer.
func backendsSeed(seed int) []backend {
	z3seed := func(argv []string) []string {
		if seed > 0 {
			argv = append(argv[:len(argv)-1], fmt.Sprintf("smt.random_seed=%d", seed), fmt.Sprintf("sat.random_seed=%d", seed), argv[len(argv)-1])
		}
		return argv
	}
	return []backend{
		{"z3-5.1.0", func(f string, ms int) []string { return z3seed([]string{"z3-new", fmt.Sprintf("-t:%d", ms), f}) }, nil},
		{"z3-4.8.12", func(f string, ms int) []string { return z3seed([]string{"/usr/bin/z3", fmt.Sprintf("-t:%d", ms), f}) }, nil},
		{"cvc5-1.0.3", func(f string, ms int) []string {
			argv := []string{"cvc5", "--lang=smt2", fmt.Sprintf("--tlimit=%d", ms)}
			if seed > 0 {
				argv = append(argv, fmt.Sprintf("--seed=%d", seed))
			}
			return append(argv, f)
		}, func(q string) string {
			const pm = "(set-option :produce-models true)\n"
			if strings.HasPrefix(q, pm) {
				return pm + "(set-logic ALL)\n" + q[len(pm):]
			}
			return "(set-logic ALL)\n" + q
		}},
	}
}

// Check runs the query (without check-sat) on the portfolio; wantModel asks
// for a model on sat.
func (s *Solver) Check(name, query string, wantModel bool) SolverResult {
	return s.CheckT(name, query, wantModel, s.Timeout)
}

func (s *Solver) CheckT(name, query string, wantModel bool, timeout time.Duration) SolverResult {
	return s.CheckSeed(name, query, wantModel, timeout, 0, "")
}

// CheckSeed: only > "" restricts the portfolio to one back end (stress mode).
func (s *Solver) CheckSeed(name, query string, wantModel bool, timeout time.Duration, seed int, only string) SolverResult {
	s.mu.Lock()
	s.n++
	id := s.n
	s.mu.Unlock()
	ms := int(timeout / time.Millisecond)
	start := time.Now()
	ctx, cancel := context.WithTimeout(context.Background(), timeout+5*time.Second)
	defer cancel()
	type one struct {
		be    string
		first string
		out   string
		el    float64
	}
	bes := backendsSeed(seed)
	if only != "" {
		var keep []backend
		for _, b := range bes {
			if b.name == only {
				keep = append(keep, b)
			}
		}
		bes = keep
	}
	ch := make(chan one, len(bes))
	for _, be := range bes {
		be := be
		go func() {
			q := query + "\n(check-sat)\n"
			if wantModel {
				q = "(set-option :produce-models true)\n" + query + "\n(check-sat)\n(get-model)\n"
			}
			if be.prep != nil {
				q = be.prep(q)
			}
			file := filepath.Join(s.Dir, fmt.Sprintf("q%d_%s.smt2", id, sanitize(be.name)))
			if err := os.WriteFile(file, []byte(q), 0o644); err != nil {
				ch <- one{be.name, "error", err.Error(), 0}
				return
			}
			argv := be.args(file, ms)
			cmd := exec.CommandContext(ctx, argv[0], argv[1:]...)
			var out bytes.Buffer
			cmd.Stdout = &out
			cmd.Stderr = &out
			t0 := time.Now()
			_ = cmd.Run()
			if !s.Keep {
				os.Remove(file)
			}
			first := ""
			for _, ln := range strings.Split(out.String(), "\n") {
				ln = strings.TrimSpace(ln)
				if ln == "" || strings.HasPrefix(ln, "WARNING") {
					continue
				}
				first = ln
				break
			}
			ch <- one{be.name, first, out.String(), time.Since(t0).Seconds()}
		}()
	}
	var res SolverResult
	for range bes {
		r := <-ch
		res.Tried = append(res.Tried, fmt.Sprintf("%s:%s:%.2fs", r.be, truncate(r.first, 40), r.el))
		switch r.first {
		case "unsat", "sat":
			if res.Status == "" {
				res.Status, res.Backend, res.Time = r.first, r.be, time.Since(start).Seconds()
				if r.first == "sat" {
					res.Output = r.out
				}
				cancel() // stop the others
			}
		default:
			if ctx.Err() == nil && len(res.Output) < 2000 && res.Status == "" {
				res.Output += r.be + ": " + truncate(r.out, 600) + "\n"
			}
		}
	}
	if res.Status == "" {
		res.Status = "unknown"
		res.Time = time.Since(start).Seconds()
	}
	return res
}

func truncate(s string, n int) string {
	if len(s) > n {
		return s[:n] + "..."
	}
	return s
}

func sortedKeys[V any](m map[string]V) []string {
	var ks []string
	for k := range m {
		ks = append(ks, k)
	}
	sort.Strings(ks)
	return ks
}
