package vc

import (
	"fmt"
	"os"
	"go/types"
	"sort"
	"strings"

	"golang.org/x/tools/go/ssa"
)

// Inlining of callees without a contract. A function of the code base under
// verification that has no contract is not a black box: its body is there. The call is
// executed symbolically in place (the callee's own panic obligations become obligations
// of the caller, named ".../inline.<callee>#n/..."), up to a small depth and never
// recursively. This keeps a proof valid when a few lines are extracted into a helper, and
// it is sound by construction: what is executed is the real body. Functions outside the
// code base (the standard library, other modules) have no body here and stay arbitrary
// code.

type inlineRet struct {
	reach   string
	st      *State
	results []Val
}

type inlineFrame struct {
	rets []inlineRet
}

const maxInlineDepth = 3

func (fc *FuncCtx) canInline(fn *ssa.Function) (ok bool) {
	if os.Getenv("LOXVC_DEBUG") != "" {
		defer func() { fmt.Fprintf(os.Stderr, "canInline %v = %v (depth %d)\n", fn, ok, fc.inlineDepth) }()
	}
	if fn == nil || len(fn.Blocks) == 0 || fc.inlineDepth >= maxInlineDepth {
		return false
	}
	for _, f := range fc.inlineStack {
		if f == fn {
			return false
		}
	}
	if fn == fc.rootFn {
		return false
	}
	pkg := fn.Pkg
	if pkg == nil && fn.Origin() != nil {
		pkg = fn.Origin().Pkg
	}
	for p := fn.Parent(); pkg == nil && p != nil; p = p.Parent() {
		pkg = p.Pkg
	}
	if pkg == nil {
		return false
	}
	path := pkg.Pkg.Path()
	if !(strings.HasPrefix(path, modPath+"/") || path == modPath || (fc.rootFn != nil && fc.rootFn.Pkg != nil && path == fc.rootFn.Pkg.Pkg.Path())) {
		return false
	}
	for _, b := range fn.Blocks {
		for _, ins := range b.Instrs {
			switch ins.(type) {
			case *ssa.Defer, *ssa.Go, *ssa.Select:
				return false
			}
		}
	}
	return true
}

// inlineCall executes fn's body on the caller's state. ok is false when the body turned
// out to be outside the subset (the caller then falls back to arbitrary code).
func (fc *FuncCtx) inlineCall(x *ssa.Call, fn *ssa.Function, args []Val, bindings []Val, st *State, reach string, site string) (res Val, ok bool) {
	// ---- save the per-function part of the context
	type frame struct {
		Fn                                  *ssa.Function
		C                                   *FuncContract
		Key                                 string
		loops                               map[*ssa.BasicBlock]*loopInfo
		loopList                            []*loopInfo
		rpo                                 []*ssa.BasicBlock
		locals                              map[string][]*ssa.Alloc
		params                              map[string]Val
		paramLst                            []Val
		init                                *State
		escaping                            map[*ssa.Alloc]bool
		cellRef                             map[*ssa.Alloc]string
		fnCells                             map[*ssa.Alloc]Val
		callOrd                             map[string]int
		callIdx                             map[*ssa.Call]int
		counters                            map[string]int
		nRet                                int
		skip                                map[string]bool
		edgeCond                            map[[2]*ssa.BasicBlock]string
		outSt                               map[*ssa.BasicBlock]*State
		blockReach                          map[*ssa.BasicBlock]string
		paramCell                           map[*ssa.Alloc]string
		paramAlloc                          map[*ssa.Alloc]string
		typeArgs                            map[string]types.Type
		inl                                 *inlineFrame
		curLoopPre                          *State
	}
	saved := frame{fc.Fn, fc.C, fc.Key, fc.loops, fc.loopList, fc.rpo, fc.locals, fc.params, fc.paramLst, fc.init, fc.escaping, fc.cellRef, fc.fnCells, fc.callOrd, fc.callIdx, fc.counters, fc.nRet, fc.skip, fc.edgeCond, fc.outSt, fc.blockReach, fc.paramCell, fc.paramAlloc, fc.typeArgs, fc.inl, fc.curLoopPre}
	nObls, nScript := len(fc.obls), len(fc.script)
	restore := func() {
		fc.Fn, fc.C, fc.Key, fc.loops, fc.loopList, fc.rpo, fc.locals, fc.params, fc.paramLst, fc.init = saved.Fn, saved.C, saved.Key, saved.loops, saved.loopList, saved.rpo, saved.locals, saved.params, saved.paramLst, saved.init
		fc.escaping, fc.cellRef, fc.fnCells, fc.callOrd, fc.callIdx, fc.counters, fc.nRet, fc.skip = saved.escaping, saved.cellRef, saved.fnCells, saved.callOrd, saved.callIdx, saved.counters, saved.nRet, saved.skip
		fc.edgeCond, fc.outSt, fc.blockReach, fc.paramCell, fc.paramAlloc, fc.typeArgs, fc.inl, fc.curLoopPre = saved.edgeCond, saved.outSt, saved.blockReach, saved.paramCell, saved.paramAlloc, saved.typeArgs, saved.inl, saved.curLoopPre
		fc.inlineDepth--
		fc.inlineStack = fc.inlineStack[:len(fc.inlineStack)-1]
	}
	fc.inlineDepth++
	fc.inlineStack = append(fc.inlineStack, fn)
	entry := st.clone()
	defer func() {
		if r := recover(); r != nil {
			restore()
			if u, is := r.(unsupported); is {
				fc.noteAssumption(fmt.Sprintf("the body of %s could not be executed in place (%s); the call is treated as arbitrary code", fn.String(), string(u)))
				if os.Getenv("LOXVC_DEBUG") != "" {
					fmt.Fprintf(os.Stderr, "inline %s failed: %s\n", fn.String(), string(u))
				}
				// roll back what the attempt emitted and let the caller treat the call as arbitrary code
				fc.obls = fc.obls[:nObls]
				fc.script = fc.script[:nScript]
				st.m = entry.m
				res, ok = Val{}, false
				return
			}
			panic(r)
		}
	}()
	fc.Fn, fc.C, fc.Key = fn, &FuncContract{Name: fn.Name(), Loops: map[int]*LoopSpec{}, Calls: map[string]*CallSpec{}, Sites: map[string]*SiteSpec{}}, saved.Key+"/inline."+site
	fc.loops, fc.loopList, fc.rpo = map[*ssa.BasicBlock]*loopInfo{}, nil, nil
	fc.locals, fc.params, fc.paramLst = map[string][]*ssa.Alloc{}, map[string]Val{}, nil
	fc.escaping, fc.cellRef, fc.fnCells = map[*ssa.Alloc]bool{}, map[*ssa.Alloc]string{}, map[*ssa.Alloc]Val{}
	fc.callOrd, fc.callIdx, fc.counters, fc.nRet = map[string]int{}, map[*ssa.Call]int{}, map[string]int{}, 0
	fc.skip = map[string]bool{"frame": true}
	fc.edgeCond, fc.outSt, fc.blockReach = map[[2]*ssa.BasicBlock]string{}, map[*ssa.BasicBlock]*State{}, map[*ssa.BasicBlock]string{}
	fc.paramCell, fc.paramAlloc = map[*ssa.Alloc]string{}, map[*ssa.Alloc]string{}
	fc.typeArgs = typeArgsOf(fn)
	fc.inl = &inlineFrame{}
	fc.init = entry
	fc.prepare()
	for i, p := range fn.Params {
		if i < len(args) {
			fc.vals[p] = args[i]
			fc.params[p.Name()] = args[i]
		}
	}
	for i, fv := range fn.FreeVars {
		if i < len(bindings) {
			fc.vals[fv] = bindings[i]
		}
	}
	fc.run(nil, fn.Blocks[0], st, reach, false)
	rets := fc.inl.rets
	restore()
	fc.noteAssumption(fmt.Sprintf("call to %s (%s) has no contract: its body is executed in place", fn.String(), site))
	// ---- merge the return points
	sig := fn.Signature
	nres := sig.Results().Len()
	if len(rets) == 0 {
		// the callee never returns normally on any path (it panics or loops): what follows is unreachable
		fc.assume(reach, "false")
		var rs []Val
		for i := 0; i < nres; i++ {
			rt := sig.Results().At(i).Type()
			rs = append(rs, Val{T: fc.fresh(fc.S.SortOf(rt), "res_"+sanitize(fn.Name())), Ty: rt})
		}
		return packVals(sig, rs), true
	}
	keys := map[string]bool{}
	for _, r := range rets {
		for k := range r.st.m {
			keys[k] = true
		}
	}
	var ks []string
	for k := range keys {
		ks = append(ks, k)
	}
	sort.Strings(ks)
	merged := map[string]string{}
	for _, k := range ks {
		if _, reg := fc.compSort[k]; !reg {
			continue
		}
		t := fc.get(rets[len(rets)-1].st, k)
		same := true
		for i := len(rets) - 2; i >= 0; i-- {
			ti := fc.get(rets[i].st, k)
			if ti != t {
				same = false
			}
			t2 := t
			if ti != t2 {
				t = "(ite " + rets[i].reach + " " + ti + " " + t2 + ")"
			}
		}
		if same {
			merged[k] = fc.get(rets[0].st, k)
		} else {
			so := fc.compSort[k]
			if strings.HasPrefix(so, "(Array") {
				n := fc.fresh(so, "r_"+shortKey(k))
				fc.emit("(assert (= " + n + " " + t + "))")
				merged[k] = n
			} else {
				merged[k] = fc.define(so, t, "r_"+shortKey(k))
			}
			fc.touched[k] = true
		}
	}
	st.m = merged
	var rs []Val
	for i := 0; i < nres; i++ {
		rt := sig.Results().At(i).Type()
		last := rets[len(rets)-1].results[i]
		if len(rets) == 1 {
			rs = append(rs, last)
			continue
		}
		t := last.T
		for j := len(rets) - 2; j >= 0; j-- {
			t = "(ite " + rets[j].reach + " " + rets[j].results[i].T + " " + t + ")"
		}
		rs = append(rs, Val{T: fc.define(fc.S.SortOf(rt), t, "res_"+sanitize(fn.Name())), Ty: rt})
	}
	// the callee returned: one of its return points was reached
	var conds []string
	for _, r := range rets {
		conds = append(conds, r.reach)
	}
	fc.assume(reach, or(conds...))
	return packVals(sig, rs), true
}

func packVals(sig *types.Signature, rs []Val) Val {
	switch len(rs) {
	case 0:
		return Val{Ty: sig.Results()}
	case 1:
		return rs[0]
	}
	return Val{Ty: sig.Results(), Tuple: rs}
}
