package vc

import (
	"fmt"
	"go/constant"
	"go/types"
	"strconv"
	"strings"

	"golang.org/x/tools/go/ssa"
)

// Env is the evaluation context of a contract expression.
type Env struct {
	fc    *FuncCtx
	vars  map[string]Val
	lets  map[string]Expr
	st    *State // current state
	old   *State // state at function entry (or pre-state of a call)
	pre   *State // state at entry of the enclosing loop
	at    *ssa.BasicBlock
	pkg   *types.Package // scope for constants / types / pure functions
	fn    *ssa.Function  // function whose locals/free variables are visible (nil at call sites)
	depth int
	freeLV map[string]*LValue // captured variables of a closure being called
}

func (e *Env) clone() *Env {
	n := *e
	n.vars = map[string]Val{}
	for k, v := range e.vars {
		n.vars[k] = v
	}
	return &n
}

type specErr string

func specFail(f string, a ...any) { panic(specErr(fmt.Sprintf(f, a...))) }

func (fc *FuncCtx) funcEnv(st *State) *Env {
	env := &Env{fc: fc, vars: map[string]Val{}, lets: map[string]Expr{}, st: st, old: fc.init, pkg: fc.pkgOf(), fn: fc.Fn}
	for k, v := range fc.params {
		env.vars[k] = v
	}
	if fc.C != nil {
		for _, l := range fc.C.Lets {
			env.lets[l.Name] = l.E
		}
	}
	return env
}

func (fc *FuncCtx) pkgOf() *types.Package {
	f := fc.Fn
	for f != nil {
		if f.Pkg != nil {
			return f.Pkg.Pkg
		}
		if f.Origin() != nil && f.Origin().Pkg != nil {
			return f.Origin().Pkg.Pkg
		}
		f = f.Parent()
	}
	return nil
}

// bodyEnv: names resolve to the current contents of local variables at block b.
func (fc *FuncCtx) bodyEnv(st *State, b *ssa.BasicBlock) *Env {
	env := &Env{fc: fc, vars: map[string]Val{}, lets: map[string]Expr{}, st: st, old: fc.init, at: b, pkg: fc.pkgOf(), fn: fc.Fn}
	if fc.C != nil {
		for _, l := range fc.C.Lets {
			env.lets[l.Name] = l.E
		}
	}
	return env
}

func (fc *FuncCtx) evalBool(env *Env, e Expr) string {
	v := fc.eval(env, e)
	if v.sort(fc) != "Bool" {
		specFail("expected a boolean expression: %s", e)
	}
	return v.T
}

func (fc *FuncCtx) evalInt(env *Env, e Expr) string {
	v := fc.eval(env, e)
	if v.sort(fc) != "Int" {
		specFail("expected an integer expression: %s", e)
	}
	return v.T
}

func (v Val) sort(fc *FuncCtx) string {
	if v.Ty != nil {
		return fc.S.SortOf(v.Ty)
	}
	return v.Sort
}

func mathInt(t string) Val  { return Val{T: t, Sort: "Int"} }
func mathBool(t string) Val { return Val{T: t, Sort: "Bool"} }

// resolveLocal finds the local variable `name` visible at block b.
func (fc *FuncCtx) resolveLocal(name string, b *ssa.BasicBlock) *ssa.Alloc {
	var best *ssa.Alloc
	for _, a := range fc.locals[name] {
		if a.Block() == b || a.Block().Dominates(b) {
			if best == nil || best.Block().Dominates(a.Block()) {
				best = a
			}
		}
	}
	return best
}

func (fc *FuncCtx) resolveType(te TypeExpr, pkg *types.Package) types.Type {
	switch te.Kind {
	case "ptr":
		return types.NewPointer(fc.resolveType(*te.Elem, pkg))
	case "slice":
		return types.NewSlice(fc.resolveType(*te.Elem, pkg))
	case "map":
		return types.NewMap(fc.resolveType(*te.Key, pkg), fc.resolveType(*te.Elem, pkg))
	}
	if len(te.Args) > 0 {
		base := te
		base.Args = nil
		gt := fc.resolveType(base, pkg)
		named, ok := gt.(*types.Named)
		if !ok {
			specFail("%s is not a generic type", te.Name)
		}
		var targs []types.Type
		for _, a := range te.Args {
			targs = append(targs, fc.resolveType(a, pkg))
		}
		inst, err := types.Instantiate(nil, named.Origin(), targs, false)
		if err != nil {
			specFail("cannot instantiate %s: %v", te.Name, err)
		}
		return inst
	}
	name := te.Name
	if k := strings.Index(name, "."); k >= 0 {
		pn, tn := name[:k], name[k+1:]
		for _, p := range fc.V.Prog.AllPackages() {
			if p.Pkg.Name() == pn || p.Pkg.Path() == pn {
				if o := p.Pkg.Scope().Lookup(tn); o != nil {
					if tnm, ok := o.(*types.TypeName); ok {
						return tnm.Type()
					}
				}
			}
		}
		specFail("unknown type %s", name)
	}
	if name == "mathint" {
		return types.Typ[types.UntypedInt]
	}
	if name == "Self" {
		// the (struct) type of the receiver of the function being verified
		if recv := fc.Fn.Signature.Recv(); recv != nil {
			t := recv.Type()
			if p, ok := t.Underlying().(*types.Pointer); ok {
				t = p.Elem()
			}
			return t
		}
		specFail("Self used in a function without receiver")
	}
	if o := types.Universe.Lookup(name); o != nil {
		if tn, ok := o.(*types.TypeName); ok {
			return tn.Type()
		}
	}
	if fc.typeArgs != nil {
		if t, ok := fc.typeArgs[name]; ok {
			return t
		}
	}
	if pkg != nil {
		if o := pkg.Scope().Lookup(name); o != nil {
			if tn, ok := o.(*types.TypeName); ok {
				return tn.Type()
			}
		}
	}
	specFail("unknown type %s", name)
	return nil
}

func (fc *FuncCtx) eval(env *Env, e Expr) Val {
	switch x := e.(type) {
	case ENum:
		v, err := strconv.ParseInt(x.V, 0, 64)
		if err != nil {
			u, err2 := strconv.ParseUint(x.V, 0, 64)
			if err2 != nil {
				specFail("bad number %s", x.V)
			}
			return mathInt(fmt.Sprint(u))
		}
		return mathInt(intLit(v))
	case EBool:
		if x.V {
			return mathBool("true")
		}
		return mathBool("false")
	case EStr:
		return Val{T: fc.S.StrLit(x.V), Ty: types.Typ[types.String]}
	case EIdent:
		return fc.evalIdent(env, x.Name)
	case EUn:
		v := fc.eval(env, x.X)
		switch x.Op {
		case "!":
			return mathBool(not(v.T))
		case "-":
			return mathInt("(- " + v.T + ")")
		case "*":
			if v.LV != nil && v.T == "" {
				return Val{T: fc.loadLV(env.st, v.LV), Ty: v.LV.Ty}
			}
			if stt, ok := derefStruct(v.Ty); ok {
				lv := &LValue{Kind: lvHeapField, Ref: v.T, Struct: stt, Field: -1, RootTy: stt, Ty: stt}
				return Val{T: fc.loadLV(env.st, lv), Ty: stt}
			}
			if pt, ok := v.Ty.Underlying().(*types.Pointer); ok {
				key := fc.ptrComp(pt.Elem())
				return Val{T: "(select " + fc.get(env.st, key) + " " + v.T + ")", Ty: pt.Elem()}
			}
			specFail("cannot dereference %s", x.X)
		}
	case EBin:
		return fc.evalBin(env, x)
	case ESel:
		return fc.evalSel(env, x)
	case EIndex:
		return fc.evalIndex(env, x)
	case ESlice:
		v := fc.eval(env, x.X)
		if v.Ty == nil {
			specFail("slicing a non-slice: %s", e)
		}
		lo, hi := "0", ""
		if x.Lo != nil {
			lo = fc.evalInt(env, x.Lo)
		}
		if isString(v.Ty) {
			if x.Hi != nil {
				hi = fc.evalInt(env, x.Hi)
			} else {
				hi = "(strlen " + v.T + ")"
			}
			return Val{T: "(substr " + v.T + " " + lo + " " + hi + ")", Ty: v.Ty}
		}
		if _, ok := v.Ty.Underlying().(*types.Slice); !ok {
			specFail("slicing a non-slice: %s", e)
		}
		if x.Hi != nil {
			hi = fc.evalInt(env, x.Hi)
		} else {
			hi = "(s-len " + v.T + ")"
		}
		return Val{T: "(mk-slice (s-base " + v.T + ") (+ (s-off " + v.T + ") " + lo + ") (- " + hi + " " + lo + ") (- (s-cap " + v.T + ") " + lo + "))", Ty: v.Ty}
	case ECall:
		return fc.evalCall(env, x)
	case EQuant:
		return fc.evalQuant(env, x)
	case EComposite:
		t := fc.resolveType(x.Type, env.pkg)
		st, ok := t.Underlying().(*types.Struct)
		if !ok || st.NumFields() != len(x.Args) {
			specFail("composite literal %s: need all %d fields positionally", e, 0)
		}
		var parts []string
		for _, a := range x.Args {
			parts = append(parts, fc.eval(env, a).T)
		}
		name := fc.S.SortOf(t)
		return Val{T: "(mk-" + name + " " + strings.Join(parts, " ") + ")", Ty: t}
	}
	specFail("cannot evaluate %s", e)
	return Val{}
}

func (fc *FuncCtx) evalIdent(env *Env, name string) Val {
	if v, ok := env.vars[name]; ok {
		if v.LV != nil && v.T == "" {
			// by-reference binding: bare use denotes the address; callers deref through evalSel/len/etc.
			return v
		}
		return v
	}
	if le, ok := env.lets[name]; ok {
		if env.depth > 20 {
			specFail("let recursion at %s", name)
		}
		e2 := *env
		e2.depth++
		return fc.eval(&e2, le)
	}
	if env.fn != nil && env.fn == fc.Fn {
		if env.at != nil {
			if a := fc.resolveLocal(name, env.at); a != nil {
				if fv, ok := fc.fnCells[a]; ok {
					return fv
				}
				if fc.escaping[a] {
					r, ok := fc.cellRef[a]
					if !ok {
						specFail("escaping local %s has no reference here", name)
					}
					return Val{T: r, Ty: a.Type()}
				}
				et := a.Type().Underlying().(*types.Pointer).Elem()
				if env.st == fc.init {
					// entry state: a parameter's variable holds the argument
					if pn, ok := fc.paramAlloc[a]; ok {
						return fc.params[pn]
					}
				}
				return Val{T: fc.get(env.st, fc.cellComp(a)), Ty: et}
			}
		}
		for _, fv := range fc.Fn.FreeVars {
			if fv.Name() == name {
				v := fc.vals[fv]
				if v.LV != nil {
					return Val{T: fc.loadLV(env.st, v.LV), Ty: v.LV.Ty}
				}
				return v
			}
		}
		if v, ok := fc.params[name]; ok {
			return v
		}
	}
	// package-level constants, variables, nullary pure functions
	if env.pkg != nil {
		if o := env.pkg.Scope().Lookup(name); o != nil {
			switch c := o.(type) {
			case *types.Const:
				return fc.constObj(c)
			case *types.Var:
				if sp := fc.V.Prog.Package(env.pkg); sp != nil {
					if g, ok := sp.Members[name].(*ssa.Global); ok {
						lv := &LValue{Kind: lvGlobal, Global: g, RootTy: c.Type(), Ty: c.Type()}
						return Val{T: fc.load(env.st, lv), Ty: c.Type()}
					}
				}
			}
		}
	}
	if pf := fc.V.lookupPure(env.pkg, name); pf != nil && len(pf.Params) == 0 {
		return fc.callPure(env, pf, nil)
	}
	specFail("unknown identifier %q (in %s)", name, fc.Key)
	return Val{}
}

func (fc *FuncCtx) constObj(c *types.Const) Val {
	switch c.Val().Kind() {
	case constant.Int:
		if v, ok := constant.Int64Val(c.Val()); ok {
			return Val{T: intLit(v), Ty: c.Type()}
		}
	case constant.Bool:
		if constant.BoolVal(c.Val()) {
			return Val{T: "true", Ty: c.Type()}
		}
		return Val{T: "false", Ty: c.Type()}
	case constant.String:
		return Val{T: fc.S.StrLit(constant.StringVal(c.Val())), Ty: c.Type()}
	}
	specFail("unsupported constant %s", c.Name())
	return Val{}
}

func (fc *FuncCtx) evalBin(env *Env, x EBin) Val {
	switch x.Op {
	case "&&":
		return mathBool(and(fc.evalBool(env, x.X), fc.evalBool(env, x.Y)))
	case "||":
		return mathBool(or(fc.evalBool(env, x.X), fc.evalBool(env, x.Y)))
	case "==>":
		return mathBool(implies(fc.evalBool(env, x.X), fc.evalBool(env, x.Y)))
	case "<==>":
		return mathBool("(= " + fc.evalBool(env, x.X) + " " + fc.evalBool(env, x.Y) + ")")
	}
	a := fc.eval(env, x.X)
	b := fc.eval(env, x.Y)
	if a.LV != nil && a.T == "" || b.LV != nil && b.T == "" {
		specFail("cannot use a by-reference parameter as a value in %s", x)
	}
	switch x.Op {
	case "==", "!=":
		sa, sb := a.sort(fc), b.sort(fc)
		if sa != sb {
			specFail("comparing %s with %s in %s", sa, sb, x)
		}
		t := "(= " + a.T + " " + b.T + ")"
		if x.Op == "!=" {
			t = not(t)
		}
		return mathBool(t)
	case "<", "<=", ">", ">=":
		return mathBool("(" + x.Op + " " + a.T + " " + b.T + ")")
	case "+":
		if a.Ty != nil && isString(a.Ty) {
			return Val{T: "(strcat " + a.T + " " + b.T + ")", Ty: a.Ty}
		}
		return mathInt("(+ " + a.T + " " + b.T + ")")
	case "-":
		return mathInt("(- " + a.T + " " + b.T + ")")
	case "*":
		return mathInt("(* " + a.T + " " + b.T + ")")
	case "/":
		// specification integers: floor division (coincides with Go for non-negative operands)
		return mathInt("(div " + a.T + " " + b.T + ")")
	case "%":
		return mathInt("(mod " + a.T + " " + b.T + ")")
	}
	specFail("unknown operator %s", x.Op)
	return Val{}
}

// derefField reads field `name` of v, where v is a struct value, a heap
// reference to a struct, or a by-reference binding to a local struct.
func (fc *FuncCtx) fieldOf(env *Env, v Val, name string) Val {
	if v.LV != nil && v.T == "" {
		// by-ref binding (pointer to a local of the caller)
		i, ok := fc.S.FieldByName(v.LV.Ty, name)
		if !ok {
			specFail("no field %s in %s", name, v.LV.Ty)
		}
		sel, f := fc.S.Field(v.LV.Ty, i)
		return Val{T: "(" + sel + " " + fc.loadLV(env.st, v.LV) + ")", Ty: f.Ty}
	}
	if v.Ty == nil {
		specFail("field %s of a non-struct", name)
	}
	if st, ok := derefStruct(v.Ty); ok {
		path, tys, ok := fc.S.PromotedPath(st, name)
		if !ok {
			specFail("no field %s in %s", name, st)
		}
		hk := fc.heapComp(st, path[0])
		t := "(select " + fc.get(env.st, hk) + " " + v.T + ")"
		ft := st.Underlying().(*types.Struct).Field(path[0]).Type()
		if len(path) == 2 {
			sel, f := fc.S.Field(tys[1], path[1])
			t = "(" + sel + " " + t + ")"
			ft = f.Ty
		}
		return Val{T: t, Ty: ft}
	}
	if _, ok := v.Ty.Underlying().(*types.Struct); ok {
		path, tys, ok := fc.S.PromotedPath(v.Ty, name)
		if !ok {
			specFail("no field %s in %s", name, v.Ty)
		}
		t, ft := v.T, types.Type(nil)
		for k, i := range path {
			sel, f := fc.S.Field(tys[k], i)
			t = "(" + sel + " " + t + ")"
			ft = f.Ty
		}
		return Val{T: t, Ty: ft}
	}
	specFail("field %s of %s", name, v.Ty)
	return Val{}
}

func (fc *FuncCtx) evalSel(env *Env, x ESel) Val {
	// package-qualified name?
	if id, ok := x.X.(EIdent); ok {
		if _, bound := env.vars[id.Name]; !bound && env.lets[id.Name] == nil && (env.at == nil || fc.resolveLocal(id.Name, env.at) == nil) {
			if _, isParam := fc.params[id.Name]; !isParam || env.fn == nil {
				for _, p := range fc.V.Prog.AllPackages() {
					if p.Pkg.Name() == id.Name {
						if o := p.Pkg.Scope().Lookup(x.Name); o != nil {
							if c, ok := o.(*types.Const); ok {
								return fc.constObj(c)
							}
						}
					}
				}
			}
		}
	}
	v := fc.eval(env, x.X)
	return fc.fieldOf(env, v, x.Name)
}

func (fc *FuncCtx) evalIndex(env *Env, x EIndex) Val {
	v := fc.eval(env, x.X)
	if v.Ty == nil {
		// ghost array
		if strings.HasPrefix(v.Sort, "(Array ") {
			i := fc.eval(env, x.I)
			return Val{T: "(select " + v.T + " " + i.T + ")", Sort: arrayElemSort(v.Sort)}
		}
		specFail("indexing a non-indexable value in %s", x)
	}
	switch u := v.Ty.Underlying().(type) {
	case *types.Slice:
		i := fc.evalInt(env, x.I)
		ek := fc.elemComp(u.Elem())
		return Val{T: fc.at(u.Elem(), fc.get(env.st, ek), v.T, i), Ty: u.Elem()}
	case *types.Map:
		k := fc.eval(env, x.I)
		dk, vk := fc.mapComps(u)
		// Go semantics: the zero value for a missing key (or a nil map)
		in := "(and (not (= " + v.T + " 0)) (select (select " + fc.get(env.st, dk) + " " + v.T + ") " + k.T + "))"
		return Val{T: "(ite " + in + " (select (select " + fc.get(env.st, vk) + " " + v.T + ") " + k.T + ") " + fc.S.Zero(u.Elem()) + ")", Ty: u.Elem()}
	case *types.Array:
		i := fc.evalInt(env, x.I)
		return Val{T: "(select " + v.T + " " + i + ")", Ty: u.Elem()}
	case *types.Basic:
		if isString(v.Ty) {
			i := fc.evalInt(env, x.I)
			return Val{T: "(strbyte " + v.T + " " + i + ")", Ty: types.Typ[types.Uint8]}
		}
	}
	specFail("indexing %s", v.Ty)
	return Val{}
}

func arrayElemSort(s string) string {
	// "(Array Int X)" -> X
	s = strings.TrimPrefix(s, "(Array ")
	s = strings.TrimSuffix(s, ")")
	depth := 0
	for i, c := range s {
		switch c {
		case '(':
			depth++
		case ')':
			depth--
		case ' ':
			if depth == 0 {
				return s[i+1:]
			}
		}
	}
	return s
}

func (fc *FuncCtx) evalQuant(env *Env, q EQuant) Val {
	e2 := env.clone()
	var binds []string
	for _, b := range q.Vars {
		fc.nfresh++
		n := fmt.Sprintf("%s?%d", b.Name, fc.nfresh)
		if b.Type.Kind == "name" && (b.Type.Name == "mathint") {
			e2.vars[b.Name] = mathInt(n)
			binds = append(binds, "("+n+" Int)")
			continue
		}
		t := fc.resolveType(b.Type, env.pkg)
		e2.vars[b.Name] = Val{T: n, Ty: t}
		binds = append(binds, "("+n+" "+fc.S.SortOf(t)+")")
	}
	body := fc.evalBool(e2, q.Body)
	var pats string
	for _, p := range q.Pats {
		var ts []string
		for _, pe := range p {
			t := fc.eval(e2, pe).T
			// has(m, k) is (and (not (= m 0)) (select ...)): only the select may be a pattern
			if strings.HasPrefix(t, "(and (not (= ") {
				if k := strings.Index(t, "(select (select "); k >= 0 {
					t = t[k : len(t)-1]
				}
			}
			ts = append(ts, t)
		}
		pats += " :pattern (" + strings.Join(ts, " ") + ")"
	}
	if pats != "" {
		body = "(! " + body + pats + ")"
	}
	kw := "exists"
	if q.Forall {
		kw = "forall"
	}
	return mathBool("(" + kw + " (" + strings.Join(binds, " ") + ") " + body + ")")
}

func (fc *FuncCtx) evalCall(env *Env, c ECall) Val {
	// method-style call on a value: x.Contains(y)
	if sel, ok := c.Fn.(ESel); ok {
		return fc.evalMethodCall(env, sel, c.Args)
	}
	id, ok := c.Fn.(EIdent)
	if !ok {
		specFail("cannot call %s", c.Fn)
	}
	arg := func(i int) Val { return fc.eval(env, c.Args[i]) }
	need := func(n int) {
		if len(c.Args) != n {
			specFail("%s expects %d arguments", id.Name, n)
		}
	}
	switch id.Name {
	case "old":
		need(1)
		e2 := *env
		e2.st = env.old
		return fc.eval(&e2, c.Args[0])
	case "pre":
		need(1)
		if env.pre == nil {
			specFail("pre() outside a loop invariant")
		}
		e2 := *env
		e2.st = env.pre
		return fc.eval(&e2, c.Args[0])
	case "len":
		need(1)
		v := arg(0)
		return mathInt(fc.lenOf(env, v))
	case "cap":
		need(1)
		return mathInt("(s-cap " + arg(0).T + ")")
	case "base":
		need(1)
		return mathInt("(s-base " + arg(0).T + ")")
	case "off":
		need(1)
		return mathInt("(s-off " + arg(0).T + ")")
	case "ite":
		need(3)
		a, b := arg(1), arg(2)
		r := a
		r.T = "(ite " + fc.evalBool(env, c.Args[0]) + " " + a.T + " " + b.T + ")"
		return r
	case "fresh":
		// allocated after function entry (or after the pre-state of the call)
		need(1)
		v := arg(0)
		r := v.T
		if v.Ty != nil {
			if _, ok := v.Ty.Underlying().(*types.Slice); ok {
				r = "(s-base " + v.T + ")"
			}
		}
		return mathBool("(>= " + r + " " + fc.next(env.old) + ")")
	case "allocated":
		need(1)
		v := arg(0)
		r := v.T
		if v.Ty != nil {
			if _, ok := v.Ty.Underlying().(*types.Slice); ok {
				r = "(s-base " + v.T + ")"
			}
		}
		return mathBool("(< " + r + " " + fc.next(env.st) + ")")
	case "in", "has": // map membership: has(m, k)
		if id.Name == "has" {
			need(2)
			m := arg(0)
			mt, ok := m.Ty.Underlying().(*types.Map)
			if !ok {
				specFail("has() on a non-map")
			}
			dk, _ := fc.mapComps(mt)
			return mathBool("(and (not (= " + m.T + " 0)) (select (select " + fc.get(env.st, dk) + " " + m.T + ") " + arg(1).T + "))")
		}
	case "isnil":
		need(1)
		v := arg(0)
		if v.LV != nil && v.T == "" {
			return mathBool("false")
		}
		switch v.sort(fc) {
		case "Slice":
			return mathBool("(= (s-base " + v.T + ") 0)")
		case "Iface":
			return mathBool("(= " + v.T + " iface_nil)")
		}
		return mathBool("(= " + v.T + " 0)")
	case "typeis":
		// typeis(x, T): the dynamic type of interface value x is T
		need(2)
		v := arg(0)
		te, ok := exprToType(c.Args[1])
		if !ok {
			specFail("typeis: second argument must be a type")
		}
		t := fc.resolveType(te, env.pkg)
		tag, _, _ := fc.S.Box(t)
		return mathBool(fmt.Sprintf("(= (dyntype %s) %d)", v.T, tag))
	case "unbox":
		need(2)
		v := arg(0)
		te, ok := exprToType(c.Args[1])
		if !ok {
			specFail("unbox: second argument must be a type")
		}
		t := fc.resolveType(te, env.pkg)
		_, _, unbox := fc.S.Box(t)
		return Val{T: "(" + unbox + " " + v.T + ")", Ty: t}
	case "box":
		need(1)
		v := arg(0)
		if v.Ty == nil {
			specFail("box of untyped value")
		}
		_, box, _ := fc.S.Box(v.Ty)
		return Val{T: "(" + box + " " + v.T + ")", Ty: types.NewInterfaceType(nil, nil)}
	case "unchanged", "unchangedOld":
		// unchanged(elems(T) | fields(T.f), loc...): every location of the component that was
		// allocated in the reference state (loop entry inside an invariant, function entry
		// otherwise) and is not one of the listed locations has its reference value.
		if len(c.Args) < 1 {
			specFail("unchanged needs a component")
		}
		ref := env.old
		if env.pre != nil && id.Name == "unchanged" {
			ref = env.pre
		}
		renv := *env
		renv.st = ref
		comps := fc.parseModifies(&renv, []string{c.Args[0].String()})
		var locs []modLoc
		for _, a := range c.Args[1:] {
			locs = append(locs, fc.parseModifies(&renv, []string{exprText(a)})...)
		}
		var parts []string
		for _, cm := range comps {
			parts = append(parts, fc.frameFormula(cm.comp, ref, env.st, fc.next(ref), locs))
		}
		return mathBool(and(parts...))
	case "castas":
		// castas(x, y): the generated _cast of x to the static type of y
		need(2)
		x, y := arg(0), arg(1)
		if y.Ty == nil {
			specFail("castas: second argument has no Go type")
		}
		for k, fs := range fc.V.funcsByKey {
			if !strings.HasSuffix(k, "._cast") {
				continue
			}
			for _, f := range fs {
				if ta := f.TypeArgs(); len(ta) == 1 && types.Identical(ta[0], y.Ty) {
					return fc.pureGoCall(f, []Val{x})
				}
			}
		}
		specFail("castas: no _cast instance for %s", y.Ty)
	case "strlen":
		need(1)
		return mathInt("(strlen " + arg(0).T + ")")
	}
	// conversion: int(x), rune(x), int32(x) ...
	if o := types.Universe.Lookup(id.Name); o != nil && len(c.Args) == 1 {
		if tn, ok := o.(*types.TypeName); ok {
			v := arg(0)
			if isString(tn.Type()) && v.Ty != nil && isByteSlice(v.Ty) {
				ek := fc.elemComp(v.Ty.Underlying().(*types.Slice).Elem())
				fc.needBytes2Str()
				return Val{T: "(bytes2str (select " + fc.get(env.st, ek) + " (s-base " + v.T + ")) (s-off " + v.T + ") (s-len " + v.T + "))", Ty: tn.Type()}
			}
			if _, _, isInt := intInfo(tn.Type()); isInt {
				if v.Ty != nil {
					return Val{T: convInt(v.T, v.Ty, tn.Type()), Ty: tn.Type()}
				}
				// mathematical integer: wrap into the target
				return Val{T: convInt(v.T, types.Typ[types.UntypedInt], tn.Type()), Ty: tn.Type()}
			}
		}
	}
	if fc.typeArgs != nil {
		if t, ok := fc.typeArgs[id.Name]; ok && len(c.Args) == 1 {
			v := arg(0)
			from := types.Type(types.Typ[types.UntypedInt])
			if v.Ty != nil {
				from = v.Ty
			}
			return Val{T: convInt(v.T, from, t), Ty: t}
		}
	}
	if pf := fc.V.lookupPure(env.pkg, id.Name); pf != nil {
		var args []Val
		for i := range c.Args {
			args = append(args, arg(i))
		}
		return fc.callPure(env, pf, args)
	}
	// Go function of the package with a pure contract
	if env.pkg != nil {
		if sp := fc.V.Prog.Package(env.pkg); sp != nil {
			if f, ok := sp.Members[id.Name].(*ssa.Function); ok {
				var args []Val
				for i := range c.Args {
					args = append(args, arg(i))
				}
				return fc.pureGoCall(f, args)
			}
		}
	}
	// local closure bound to a variable (min, max, ...)
	if env.at != nil {
		if a := fc.resolveLocal(id.Name, env.at); a != nil {
			if fv, ok := fc.fnCells[a]; ok && fv.Fn != nil {
				var args []Val
				for i := range c.Args {
					args = append(args, arg(i))
				}
				return fc.pureGoCall(fv.Fn, args)
			}
		}
	}
	specFail("unknown function %s", id.Name)
	return Val{}
}

func exprToType(e Expr) (TypeExpr, bool) {
	switch x := e.(type) {
	case EIdent:
		return TypeExpr{Kind: "name", Name: x.Name}, true
	case ESel:
		if id, ok := x.X.(EIdent); ok {
			return TypeExpr{Kind: "name", Name: id.Name + "." + x.Name}, true
		}
	case EUn:
		if x.Op == "*" {
			if t, ok := exprToType(x.X); ok {
				return TypeExpr{Kind: "ptr", Elem: &t}, true
			}
		}
	}
	return TypeExpr{}, false
}

func (fc *FuncCtx) lenOf(env *Env, v Val) string {
	if v.LV != nil && v.T == "" {
		v = Val{T: fc.loadLV(env.st, v.LV), Ty: v.LV.Ty}
	}
	if v.Ty == nil {
		specFail("len of untyped value")
	}
	switch u := v.Ty.Underlying().(type) {
	case *types.Slice:
		return "(s-len " + v.T + ")"
	case *types.Basic:
		if isString(v.Ty) {
			return "(strlen " + v.T + ")"
		}
	case *types.Map:
		fc.mapComps(u)
		return "(select " + fc.get(env.st, "Mlen:"+types.TypeString(u, nil)) + " " + v.T + ")"
	case *types.Array:
		return fmt.Sprint(u.Len())
	}
	specFail("len of %s", v.Ty)
	return ""
}

func (fc *FuncCtx) evalMethodCall(env *Env, sel ESel, argsE []Expr) Val {
	// package-qualified function: pkg.F(args)
	if id, ok := sel.X.(EIdent); ok {
		_, bound := env.vars[id.Name]
		if !bound && env.lets[id.Name] == nil && (env.at == nil || fc.resolveLocal(id.Name, env.at) == nil) && fc.params[id.Name].T == "" {
			for _, p := range fc.V.Prog.AllPackages() {
				if p.Pkg.Name() == id.Name {
					// a pure / ghost function declared in that package's contract namespace
					if pf, ok := fc.V.CS.Pures[p.Pkg.Path()+"."+sel.Name]; ok {
						var args []Val
						for _, a := range argsE {
							args = append(args, fc.eval(env, a))
						}
						return fc.callPure(env, pf, args)
					}
					if f, ok := p.Members[sel.Name].(*ssa.Function); ok {
						var args []Val
						for _, a := range argsE {
							args = append(args, fc.eval(env, a))
						}
						return fc.pureGoCall(f, args)
					}
				}
			}
		}
	}
	recv := fc.eval(env, sel.X)
	if recv.Ty == nil {
		specFail("method call on untyped value: %s", sel)
	}
	ms := fc.V.Prog.MethodSets.MethodSet(recv.Ty)
	s := ms.Lookup(nil, sel.Name)
	if s == nil {
		// try unexported lookup with the receiver's package
		if n, ok := recv.Ty.(*types.Named); ok {
			s = ms.Lookup(n.Obj().Pkg(), sel.Name)
		} else if p, ok := recv.Ty.(*types.Pointer); ok {
			if n, ok := p.Elem().(*types.Named); ok {
				s = ms.Lookup(n.Obj().Pkg(), sel.Name)
			}
		}
	}
	if s == nil {
		specFail("no method %s on %s", sel.Name, recv.Ty)
	}
	f := fc.V.Prog.MethodValue(s)
	if f == nil {
		specFail("abstract method %s", sel.Name)
	}
	args := []Val{recv}
	for _, a := range argsE {
		args = append(args, fc.eval(env, a))
	}
	return fc.pureGoCall(f, args)
}

// callPure expands a `pure func` (macro) or applies an uninterpreted ghost function.
func (fc *FuncCtx) callPure(env *Env, pf *PureFunc, args []Val) Val {
	if len(args) != len(pf.Params) {
		specFail("%s expects %d arguments, got %d", pf.Name, len(pf.Params), len(args))
	}
	ppkg := fc.V.typesPkg(pf.Pkg)
	if ppkg == nil {
		ppkg = env.pkg
	}
	if pf.Body != nil && !pf.Opaque {
		e2 := &Env{fc: fc, vars: map[string]Val{}, lets: map[string]Expr{}, st: env.st, old: env.old, pre: env.pre, pkg: ppkg, depth: env.depth + 1}
		if e2.depth > 40 {
			specFail("pure function recursion in %s", pf.Name)
		}
		for i, p := range pf.Params {
			e2.vars[p.Name] = args[i]
		}
		r := fc.eval(e2, pf.Body)
		return r
	}
	// uninterpreted
	name := "g_" + sanitize(pf.Name)
	if !fc.ghostDecl[name] {
		fc.ghostDecl[name] = true
		var ps []string
		for _, p := range pf.Params {
			ps = append(ps, fc.sortOfTypeExpr(p.Type, ppkg))
		}
		rs := fc.sortOfTypeExpr(pf.Result, ppkg)
		if pf.Opaque && pf.Body != nil {
			// definitional axiom; heap components the body reads become extra arguments
			var rec []string
			bst := &State{m: map[string]string{}, bind: &rec}
			e2 := &Env{fc: fc, vars: map[string]Val{}, lets: map[string]Expr{}, st: bst, old: bst, pkg: ppkg}
			var binds, bn []string
			for i, p := range pf.Params {
				n := fmt.Sprintf("o%d?%s", i, sanitize(pf.Name))
				binds = append(binds, "("+n+" "+ps[i]+")")
				bn = append(bn, n)
				if p.Type.Kind == "name" && p.Type.Name == "mathint" {
					e2.vars[p.Name] = mathInt(n)
				} else {
					e2.vars[p.Name] = Val{T: n, Ty: fc.resolveType(p.Type, ppkg)}
				}
			}
			body := fc.eval(e2, pf.Body)
			for _, k := range rec {
				binds = append(binds, "("+bst.m[k]+" "+fc.compSort[k]+")")
				bn = append(bn, bst.m[k])
				ps = append(ps, fc.compSort[k])
			}
			fc.opaqueComps[name] = rec
			fc.specHdr = append(fc.specHdr, fmt.Sprintf("(declare-fun %s (%s) %s)", name, strings.Join(ps, " "), rs))
			app := name
			if len(bn) > 0 {
				app = "(" + name + " " + strings.Join(bn, " ") + ")"
			}
			if len(binds) > 0 {
				fc.specHdr = append(fc.specHdr, "(assert (forall ("+strings.Join(binds, " ")+") (! (= "+app+" "+body.T+") :pattern ("+app+"))))")
			} else {
				fc.specHdr = append(fc.specHdr, "(assert (= "+app+" "+body.T+"))")
			}
		} else {
			// ghost state: the function also depends on the listed heap components
			var rec []string
			if len(pf.Reads) > 0 {
				renv := &Env{fc: fc, vars: map[string]Val{}, lets: map[string]Expr{}, st: env.st, old: env.old, pkg: ppkg}
				for _, l := range fc.parseModifies(renv, pf.Reads) {
					if l.comp != "" {
						rec = append(rec, l.comp)
						ps = append(ps, fc.compSort[l.comp])
					}
				}
			}
			if pf.Content != "" {
				// a function of the contents of its single slice argument: the element heap is
				// an argument, and equal contents (in any two heaps) give equal results
				if len(pf.Params) != 1 || pf.Params[0].Type.Kind != "slice" {
					specFail("ghost func %s: content functions take exactly one slice", pf.Name)
				}
				et := fc.resolveType(*pf.Params[0].Type.Elem, ppkg)
				ek := fc.elemComp(et)
				rec = []string{ek}
				ps = append(ps, fc.compSort[ek])
				fc.specHdr = append(fc.specHdr, fmt.Sprintf("(declare-fun %s (%s) %s)", name, strings.Join(ps, " "), rs))
				es := fc.compSort[ek]
				diff := name + "_diff"
				fc.specHdr = append(fc.specHdr, fmt.Sprintf("(declare-fun %s (Slice %s Slice %s) Int)", diff, es, es))
				a1 := fc.at(et, "E1", "a", "("+diff+" a E1 b E2)")
				a2 := fc.at(et, "E2", "b", "("+diff+" a E1 b E2)")
				fc.specHdr = append(fc.specHdr, fmt.Sprintf("(assert (forall ((a Slice) (E1 %s) (b Slice) (E2 %s)) (! (=> (and (= (s-len a) (s-len b)) (=> (and (<= 0 (%s a E1 b E2)) (< (%s a E1 b E2) (s-len a))) (= %s %s))) (= (%s a E1) (%s b E2))) :pattern ((%s a E1) (%s b E2)))))", es, es, diff, diff, a1, a2, name, name, name, name))
				if strings.HasPrefix(pf.Content, "injective") {
					aj1 := fc.at(et, "E1", "a", "j")
					aj2 := fc.at(et, "E2", "b", "j")
					fc.specHdr = append(fc.specHdr, fmt.Sprintf("(assert (forall ((a Slice) (E1 %s) (b Slice) (E2 %s)) (! (=> (= (%s a E1) (%s b E2)) (and (= (s-len a) (s-len b)) (forall ((j Int)) (! (=> (and (<= 0 j) (< j (s-len a))) (= %s %s)) :pattern (%s) :pattern (%s))))) :pattern ((%s a E1) (%s b E2)))))", es, es, name, name, aj1, aj2, aj1, aj2, name, name))
					fc.noteAssumption(fmt.Sprintf("ghost function %s is an injective function of the slice contents (%s:%d)", pf.Name, relFile(pf.File), pf.Line))
				}
			} else {
				fc.specHdr = append(fc.specHdr, fmt.Sprintf("(declare-fun %s (%s) %s)", name, strings.Join(ps, " "), rs))
			}
			fc.opaqueComps[name] = rec
			fc.emitAxiomsMentioning(pf.Name)
		}
	}
	var ts []string
	for _, a := range args {
		ts = append(ts, a.T)
	}
	for _, k := range fc.opaqueComps[name] {
		ts = append(ts, fc.get(env.st, k))
	}
	t := name
	if len(ts) > 0 {
		t = "(" + name + " " + strings.Join(ts, " ") + ")"
	}
	if pf.Result.Kind == "name" && pf.Result.Name == "mathint" {
		return mathInt(t)
	}
	rt := fc.resolveType(pf.Result, ppkg)
	if b, ok := rt.(*types.Basic); ok && b.Kind() == types.Bool {
		return mathBool(t)
	}
	return Val{T: t, Ty: rt}
}

func (fc *FuncCtx) sortOfTypeExpr(te TypeExpr, pkg *types.Package) string {
	if te.Kind == "name" && te.Name == "mathint" {
		return "Int"
	}
	return fc.S.SortOf(fc.resolveType(te, pkg))
}

// emitAxiomsMentioning adds (once) every axiom of the contract set that
// mentions the given ghost function; axioms are closed formulas.
func (fc *FuncCtx) emitAxiomsMentioning(name string) {
	for _, ax := range fc.V.CS.Axioms {
		key := fmt.Sprintf("axiom:%p", ax)
		if fc.ghostDecl[key] {
			continue
		}
		if !mentions(ax.E, name) {
			continue
		}
		fc.ghostDecl[key] = true
		env := &Env{fc: fc, vars: map[string]Val{}, lets: map[string]Expr{}, st: fc.init, old: fc.init, pkg: fc.V.typesPkg(ax.Pkg)}
		t := fc.evalBool(env, ax.E)
		fc.specHdr = append(fc.specHdr, "(assert "+t+")")
		fc.assumptions = append(fc.assumptions, fmt.Sprintf("axiom %s (%s:%d)", ax.Name, ax.File, ax.Line))
	}
}

func mentions(e Expr, name string) bool {
	found := false
	var walk func(e Expr)
	walk = func(e Expr) {
		if e == nil || found {
			return
		}
		switch x := e.(type) {
		case EIdent:
			if x.Name == name {
				found = true
			}
		case EUn:
			walk(x.X)
		case EBin:
			walk(x.X)
			walk(x.Y)
		case ESel:
			walk(x.X)
		case EIndex:
			walk(x.X)
			walk(x.I)
		case ESlice:
			walk(x.X)
			walk(x.Lo)
			walk(x.Hi)
		case ECall:
			walk(x.Fn)
			for _, a := range x.Args {
				walk(a)
			}
		case EQuant:
			walk(x.Body)
			for _, p := range x.Pats {
				for _, pe := range p {
					walk(pe)
				}
			}
		case EComposite:
			for _, a := range x.Args {
				walk(a)
			}
		}
	}
	walk(e)
	return found
}

// exprText renders an expression back to contract syntax (for modifies-style arguments).
func exprText(e Expr) string {
	switch x := e.(type) {
	case EBin:
		return exprText(x.X) + " " + x.Op + " " + exprText(x.Y)
	case ESlice:
		lo, hi := "", ""
		if x.Lo != nil {
			lo = exprText(x.Lo)
		}
		if x.Hi != nil {
			hi = exprText(x.Hi)
		}
		return exprText(x.X) + "[" + lo + ":" + hi + "]"
	case EIndex:
		return exprText(x.X) + "[" + exprText(x.I) + "]"
	case ESel:
		return exprText(x.X) + "." + x.Name
	case ECall:
		var a []string
		for _, y := range x.Args {
			a = append(a, exprText(y))
		}
		return exprText(x.Fn) + "(" + strings.Join(a, ", ") + ")"
	case EUn:
		return x.Op + exprText(x.X)
	}
	return e.String()
}
