package vc

import (
	"fmt"
	"go/ast"
	"go/constant"
	"go/types"
	"os"
	"path/filepath"
	"runtime/debug"
	"sort"
	"strings"
	"sync"
	"time"

	"golang.org/x/tools/go/packages"
	"golang.org/x/tools/go/ssa"
	"golang.org/x/tools/go/ssa/ssautil"
)

type Verifier struct {
	Prog    *ssa.Program
	Pkgs    []*packages.Package
	SSAPkgs []*ssa.Package
	CS      *ContractSet
	Solver  *Solver
	fnIDs   map[*ssa.Function]int
	typeIDs map[string]int
	mu      sync.Mutex
	RepoDir string
	funcsByKey map[string][]*ssa.Function
	Verbose bool
}

func relFile(p string) string {
	for _, pre := range []string{"/repo/", "/verif/"} {
		if strings.HasPrefix(p, pre) {
			return p[len(pre)-1:][1:]
		}
	}
	return p
}

// Load loads the given package patterns (relative to dir) with the verif tag
// and builds naive-form SSA with instantiated generics.
func Load(dir string, patterns []string, overlay map[string][]byte) (*Verifier, error) {
	cfg := &packages.Config{
		Mode:       packages.LoadAllSyntax,
		Dir:        dir,
		BuildFlags: []string{"-tags=verif"},
		Overlay:    overlay,
		Env:        append(os.Environ(), "GOFLAGS=-mod=mod", "GOPROXY=off", "GOSUMDB=off", "GOTOOLCHAIN=local"),
	}
	pkgs, err := packages.Load(cfg, patterns...)
	if err != nil {
		return nil, err
	}
	var errs []string
	packages.Visit(pkgs, nil, func(p *packages.Package) {
		for _, e := range p.Errors {
			errs = append(errs, e.Error())
		}
	})
	if len(errs) > 0 {
		return nil, fmt.Errorf("package errors: %s", strings.Join(errs, "; "))
	}
	prog, spkgs := ssautil.AllPackages(pkgs, ssa.NaiveForm|ssa.InstantiateGenerics)
	prog.Build()
	v := &Verifier{Prog: prog, Pkgs: pkgs, SSAPkgs: spkgs, fnIDs: map[*ssa.Function]int{}, typeIDs: map[string]int{}, RepoDir: dir}
	v.indexFunctions()
	return v, nil
}

func (v *Verifier) indexFunctions() {
	v.funcsByKey = map[string][]*ssa.Function{}
	roots := map[*ssa.Package]bool{}
	for _, p := range v.SSAPkgs {
		if p != nil {
			roots[p] = true
		}
	}
	seen := map[*ssa.Function]bool{}
	var work []*ssa.Function
	add := func(f *ssa.Function) {
		if f == nil || seen[f] {
			return
		}
		seen[f] = true
		work = append(work, f)
	}
	for p := range roots {
		for _, m := range p.Members {
			switch x := m.(type) {
			case *ssa.Function:
				add(x)
			case *ssa.Type:
				for _, t := range []types.Type{x.Type(), types.NewPointer(x.Type())} {
					if n, ok := x.Type().(*types.Named); ok && n.TypeParams().Len() > 0 {
						continue // uninstantiated generic type
					}
					ms := v.Prog.MethodSets.MethodSet(t)
					for i := 0; i < ms.Len(); i++ {
						add(v.Prog.MethodValue(ms.At(i)))
					}
				}
			}
		}
	}
	for len(work) > 0 {
		f := work[len(work)-1]
		work = work[:len(work)-1]
		deep := f.Pkg == nil || roots[f.Pkg]
		if !deep {
			continue
		}
		for _, af := range f.AnonFuncs {
			add(af)
		}
		for _, b := range f.Blocks {
			for _, ins := range b.Instrs {
				for _, op := range ins.Operands(nil) {
					if op == nil || *op == nil {
						continue
					}
					if g, ok := (*op).(*ssa.Function); ok {
						add(g)
					}
				}
			}
		}
	}
	var fns []*ssa.Function
	for f := range seen {
		fns = append(fns, f)
	}
	sort.Slice(fns, func(i, j int) bool { return fns[i].String() < fns[j].String() })
	for _, f := range fns {
		if f.Synthetic != "" && f.Origin() == nil {
			continue
		}
		if f.TypeParams().Len() > 0 && len(f.TypeArgs()) == 0 {
			continue // uninstantiated generic body
		}
		if p := f.Parent(); p != nil && p.TypeParams().Len() > 0 && len(p.TypeArgs()) == 0 {
			continue
		}
		if len(f.Blocks) == 0 {
			continue
		}
		k := v.funcKey(f)
		if k != "" {
			v.funcsByKey[k] = append(v.funcsByKey[k], f)
		}
		if nk := v.funcKeyByName(f); nk != "" && nk != k {
			v.funcsByKey[nk] = append(v.funcsByKey[nk], f)
		}
	}
}

// closureVarName: the local variable a function literal is assigned to
// (`min := func(...)`), or "" when it is used in place. Contracts may name a closure
// Outer$min instead of Outer$3: the ordinal changes when another function literal is
// added or removed, the name does not.
func closureVarName(f *ssa.Function) string {
	p := f.Parent()
	if p == nil {
		return ""
	}
	for _, b := range p.Blocks {
		for _, ins := range b.Instrs {
			st, ok := ins.(*ssa.Store)
			if !ok {
				continue
			}
			var fn *ssa.Function
			switch x := st.Val.(type) {
			case *ssa.MakeClosure:
				fn, _ = x.Fn.(*ssa.Function)
			case *ssa.Function:
				fn = x
			}
			if fn != f {
				continue
			}
			if a, ok := st.Addr.(*ssa.Alloc); ok && a.Comment != "" {
				return a.Comment
			}
		}
	}
	return ""
}

// funcKeyByName: like funcKey, with closures named by the variable they are assigned to.
func (v *Verifier) funcKeyByName(f *ssa.Function) string {
	if f.Parent() == nil {
		return v.funcKey(f)
	}
	pk := v.funcKeyByName(f.Parent())
	if pk == "" {
		return ""
	}
	if n := closureVarName(f); n != "" {
		return pk + "$" + n
	}
	for i, af := range f.Parent().AnonFuncs {
		if af == f {
			return fmt.Sprintf("%s$%d", pk, i+1)
		}
	}
	return ""
}

// funcKey: "<pkgpath>.<Recv.>Name" with closures as Parent$N; generic instances map to their origin.
func (v *Verifier) funcKey(f *ssa.Function) string {
	if f.Parent() != nil {
		pk := v.funcKey(f.Parent())
		if pk == "" {
			return ""
		}
		// ordinal of this closure among the parent's anonymous functions
		for i, af := range f.Parent().AnonFuncs {
			if af == f {
				return fmt.Sprintf("%s$%d", pk, i+1)
			}
		}
		return ""
	}
	o := f
	if f.Origin() != nil {
		o = f.Origin()
	}
	pkg := o.Pkg
	if pkg == nil {
		if o.Object() != nil && o.Object().Pkg() != nil {
			return o.Object().Pkg().Path() + "." + shortFuncName(o)
		}
		return ""
	}
	return pkg.Pkg.Path() + "." + shortFuncName(o)
}

func (v *Verifier) contractFor(f *ssa.Function) *FuncContract {
	k := v.funcKey(f)
	if k == "" {
		return nil
	}
	if nk := v.funcKeyByName(f); nk != "" {
		if c, ok := v.CS.Funcs[nk]; ok {
			return c
		}
	}
	if c, ok := v.CS.Funcs[k]; ok {
		return c
	}
	// rendered runtime: contracts keyed "runtime:<name>" apply to any package
	if f.Parent() == nil {
		sn := shortFuncName(f)
		if c, ok := v.CS.Funcs["lox.runtime."+sn]; ok {
			return c
		}
		if i := strings.Index(sn, "."); i >= 0 {
			if c, ok := v.CS.Funcs["lox.runtime.@"+sn[i:]]; ok {
				return c
			}
			if strings.HasPrefix(sn[i+1:], "on_") {
				if c, ok := v.CS.Funcs["lox.runtime.@.on_*"]; ok {
					return c
				}
			}
		}
	}
	return nil
}

func (v *Verifier) lookupPure(pkg *types.Package, name string) *PureFunc {
	if pkg != nil {
		if pf, ok := v.CS.Pures[pkg.Path()+"."+name]; ok {
			return pf
		}
	}
	if pf, ok := v.CS.Pures["prelude."+name]; ok {
		return pf
	}
	if pf, ok := v.CS.Pures["lox.runtime."+name]; ok {
		return pf
	}
	return nil
}

func (v *Verifier) typesPkg(path string) *types.Package {
	if path == "" {
		return nil
	}
	for _, p := range v.Prog.AllPackages() {
		if p.Pkg.Path() == path {
			return p.Pkg
		}
	}
	return nil
}

func (v *Verifier) fnID(f *ssa.Function) int {
	v.mu.Lock()
	defer v.mu.Unlock()
	if id, ok := v.fnIDs[f]; ok {
		return id
	}
	id := len(v.fnIDs) + 1
	v.fnIDs[f] = id
	return id
}

func (v *Verifier) typeID(t types.Type) int {
	v.mu.Lock()
	defer v.mu.Unlock()
	k := types.TypeString(t, nil)
	if id, ok := v.typeIDs[k]; ok {
		return id
	}
	id := len(v.typeIDs) + 1
	v.typeIDs[k] = id
	return id
}

// FindFunctions returns the SSA functions (all instances) for a contract key.
// FindFunctions returns the functions (for generic code: the fully instantiated
// instances the program uses) with this key. An instance whose type arguments still
// mention a type parameter of an enclosing generic is not a concrete function; what it
// stands for is verified through the concrete instances.
func (v *Verifier) FindFunctions(key string) []*ssa.Function {
	var out []*ssa.Function
	for _, f := range v.funcsByKey[key] {
		open := false
		for _, ta := range f.TypeArgs() {
			if mentionsTypeParam(ta) {
				open = true
			}
		}
		if !open {
			out = append(out, f)
		}
	}
	return out
}

func mentionsTypeParam(t types.Type) bool {
	found := false
	var walk func(t types.Type, depth int)
	walk = func(t types.Type, depth int) {
		if found || depth > 8 {
			return
		}
		switch u := t.(type) {
		case *types.TypeParam:
			found = true
		case *types.Pointer:
			walk(u.Elem(), depth+1)
		case *types.Slice:
			walk(u.Elem(), depth+1)
		case *types.Array:
			walk(u.Elem(), depth+1)
		case *types.Map:
			walk(u.Key(), depth+1)
			walk(u.Elem(), depth+1)
		case *types.Named:
			if ta := u.TypeArgs(); ta != nil {
				for i := 0; i < ta.Len(); i++ {
					walk(ta.At(i), depth+1)
				}
			}
		}
	}
	walk(t, 0)
	return found
}

type FuncResult struct {
	Key         string
	Func        string
	Instance    string
	Obls        []*Obligation
	Err         string // unsupported construct / contract error: function could not be processed
	Assumptions []string
	Skipped     []string
	Trusted     bool
}

// VerifyFunc generates and discharges the obligations of one function instance.
// VerifyFunc generates the obligations of one function. A call to a function without
// any contract is treated as arbitrary code: it may write every heap component and
// returns arbitrary values. Components are created lazily, so when such a call is met
// the function is executed a second time with every component of the first pass
// materialised in the entry state (a havoc of "everything" is then a havoc of every key
// of the state).
func (v *Verifier) VerifyFunc(fn *ssa.Function, ct *FuncContract, display string) (res *FuncResult) {
	res, fc := v.verifyFuncOnce(fn, ct, display, nil)
	if fc != nil && fc.sawUnknownCall && res.Err == "" {
		pre := &preReg{sort: fc.compSort, ty: fc.compTy}
		res, _ = v.verifyFuncOnce(fn, ct, display, pre)
	}
	return res
}

type preReg struct {
	sort map[string]string
	ty   map[string]types.Type
}

func heapLikeKey(k string) bool {
	for _, p := range []string{"H:", "E:", "P:", "Mdom:", "Mval:", "Mlen:", "G:"} {
		if strings.HasPrefix(k, p) {
			return true
		}
	}
	return false
}

func (v *Verifier) verifyFuncOnce(fn *ssa.Function, ct *FuncContract, display string, pre *preReg) (res *FuncResult, fcOut *FuncCtx) {
	res = &FuncResult{Key: display, Func: fn.String()}
	if fn.Origin() != nil {
		res.Instance = fn.String()
	}
	fc := &FuncCtx{
		V: v, Fn: fn, C: ct, Key: display, S: NewSorts(),
		vals: map[ssa.Value]Val{}, compSort: map[string]string{}, compTy: map[string]types.Type{}, initName: map[string]string{},
		counters: map[string]int{}, loops: map[*ssa.BasicBlock]*loopInfo{}, locals: map[string][]*ssa.Alloc{}, params: map[string]Val{},
		touched: map[string]bool{}, escaping: map[*ssa.Alloc]bool{}, cellRef: map[*ssa.Alloc]string{}, fnCells: map[*ssa.Alloc]Val{},
		callOrd: map[string]int{}, ghostDecl: map[string]bool{}, skip: map[string]bool{},
		edgeCond: map[[2]*ssa.BasicBlock]string{}, outSt: map[*ssa.BasicBlock]*State{}, blockReach: map[*ssa.BasicBlock]string{},
		paramCell: map[*ssa.Alloc]string{}, opaqueComps: map[string][]string{}, paramAlloc: map[*ssa.Alloc]string{},
	}
	fc.typeArgs = typeArgsOf(fn)
	fc.rootFn = fn
	fcOut = fc
	defer func() {
		if r := recover(); r != nil {
			switch e := r.(type) {
			case unsupported:
				res.Err = "out of subset: " + string(e)
			case specErr:
				res.Err = "contract error: " + string(e)
			default:
				res.Err = fmt.Sprintf("internal error: %v\n%s", r, debug.Stack())
			}
			res.Obls = nil
		}
	}()
	if ct != nil {
		for _, k := range ct.Skip {
			fc.skip[k] = true
		}
		for k := range fc.skip {
			res.Skipped = append(res.Skipped, k)
		}
		sort.Strings(res.Skipped)
	}
	if len(fn.Blocks) == 0 {
		res.Err = "no body"
		return
	}
	fc.prepare()
	fc.init = newState()
	reach := "true"
	st := fc.init.clone()
	// parameters
	fc.registerComp(nextKey, "Int")
	if pre != nil {
		var keys []string
		for k := range pre.sort {
			if heapLikeKey(k) {
				keys = append(keys, k)
			}
		}
		sort.Strings(keys)
		for _, k := range keys {
			fc.registerComp(k, pre.sort[k])
			if t, ok := pre.ty[k]; ok {
				fc.compTy[k] = t
			}
			st.m[k] = fc.get(st, k)
		}
		fc.preRegistered = true
	}
	for pi, p := range fn.Params {
		so := fc.S.SortOf(p.Type())
		n := "p_" + sanitize(p.Name())
		if p.Name() == "_" {
			n = fmt.Sprintf("p_blank%d", pi)
		}
		fc.specHdr = append(fc.specHdr, fmt.Sprintf("(declare-const %s %s)", n, so))
		pv := Val{T: n, Ty: p.Type()}
		if _, ok := p.Type().Underlying().(*types.Signature); ok {
			pv.Sort = "Int"
		}
		fc.vals[p] = pv
		fc.params[p.Name()] = pv
		fc.assume(reach, fc.typeInv(st, n, p.Type()))
		// the fields of a struct a pointer parameter points to are Go values too
		if stt, ok := derefStruct(p.Type()); ok {
			su := stt.Underlying().(*types.Struct)
			for i := 0; i < su.NumFields(); i++ {
				hk := fc.heapComp(stt, i)
				fv := "(select " + fc.get(st, hk) + " " + n + ")"
				fc.assume(reach, implies("(not (= "+n+" 0))", fc.typeInv(st, fv, su.Field(i).Type())))
			}
		}
	}
	for _, fv := range fn.FreeVars {
		et := fv.Type().Underlying().(*types.Pointer).Elem()
		key := "free:" + fv.Name()
		fc.registerComp(key, fc.S.SortOf(et))
		fc.compTy[key] = et
		fc.vals[fv] = Val{Ty: fv.Type(), LV: &LValue{Kind: lvCell, Base: key, RootTy: et, Ty: et}}
		fc.assume(reach, fc.typeInv(st, fc.get(st, key), et))
	}
	if fc.C != nil {
		env := fc.funcEnv(st)
		for _, r := range fc.C.Requires {
			fc.assume(reach, fc.evalBool(env, r.E))
		}
	}
	if fc.C != nil {
		for _, tn := range fc.C.Tables {
			fc.assumeTableLiteral(st, tn)
		}
	}
	if fc.C != nil && len(fc.C.EntryHints) > 0 {
		fc.applyHints(fc.funcEnv(st), fc.C.EntryHints, "entryhint%d", reach)
	}
	// vacuity probe: the precondition (with type invariants) must be satisfiable
	fc.obls = append(fc.obls, &Obligation{Name: display + "/vacuity/requires-satisfiable", Func: display, Kind: "vacuity", Goal: "false", Reach: "true", N: len(fc.script), fc: fc, Text: "probe: must be SAT"})
	fc.run(nil, fn.Blocks[0], st, reach, false)
	res.Obls = fc.obls
	res.Assumptions = fc.assumptions
	return
}

// prepare: RPO, loops, local variable table, escape analysis, unsupported constructs.
func (fc *FuncCtx) prepare() {
	fc.computeRPO()
	for _, b := range fc.Fn.Blocks {
		for _, ins := range b.Instrs {
			switch x := ins.(type) {
			case *ssa.Defer:
				for _, li := range fc.loops {
					if li.Body[b] {
						panic(unsupported("defer inside a loop"))
					}
				}
			case *ssa.Go:
				panic(unsupported("go statement"))
			case *ssa.Alloc:
				if x.Comment != "" {
					fc.locals[x.Comment] = append(fc.locals[x.Comment], x)
				}
				fc.escaping[x] = fc.allocEscapes(x)
			case *ssa.Store:
				if a, ok := x.Addr.(*ssa.Alloc); ok {
					if p, ok := x.Val.(*ssa.Parameter); ok {
						if b.Index == 0 && a.Comment == p.Name() {
							fc.paramAlloc[a] = p.Name()
						}
						if _, isFn := p.Type().Underlying().(*types.Signature); isFn {
							fc.paramCell[a] = p.Name()
						}
					}
				}
			}
		}
	}
}

// allocEscapes: does the address of the alloc flow anywhere other than
// loads/stores/field and index addressing, closure capture, or call arguments?
func (fc *FuncCtx) allocEscapes(a *ssa.Alloc) bool {
	et := a.Type().Underlying().(*types.Pointer).Elem()
	if _, isArr := et.Underlying().(*types.Array); isArr && a.Heap {
		return false // handled as element-heap array
	}
	var check func(v ssa.Value, depth int) bool
	check = func(v ssa.Value, depth int) bool {
		refs := v.Referrers()
		if refs == nil {
			return false
		}
		for _, r := range *refs {
			switch x := r.(type) {
			case *ssa.Store:
				if x.Val == v {
					return true
				}
			case *ssa.UnOp, *ssa.DebugRef:
			case *ssa.FieldAddr:
				if check(x, depth+1) {
					return true
				}
			case *ssa.IndexAddr:
				if check(x, depth+1) {
					return true
				}
			case *ssa.MakeClosure:
			case *ssa.Call:
				if depth > 0 {
					return true // interior pointer passed to a call
				}
				// by-reference argument to a contracted callee or method receiver
				if x.Call.IsInvoke() {
					return true
				}
			case *ssa.Slice:
				return true
			default:
				return true
			}
		}
		return false
	}
	return check(a, 0)
}

// ---- running the solver over all obligations -------------------------------------

func (v *Verifier) Discharge(results []*FuncResult, par int) {
	var all []*Obligation
	for _, r := range results {
		all = append(all, r.Obls...)
	}
	ch := make(chan *Obligation)
	var wg sync.WaitGroup
	for i := 0; i < par; i++ {
		wg.Add(1)
		go func() {
			defer wg.Done()
			for o := range ch {
				o.Solve(v.Solver)
			}
		}()
	}
	for _, o := range all {
		ch <- o
	}
	close(ch)
	wg.Wait()
	// Second chance for obligations that timed out or came back unknown (not for
	// refuted ones): the machine may have been busy. They are retried two at a time
	// with three times the budget.
	var retry []*Obligation
	for _, o := range all {
		if o.Kind != "vacuity" && o.Res.Status != "unsat" && o.Res.Status != "sat" {
			retry = append(retry, o)
		}
	}
	if len(retry) > 0 && len(retry) <= 6 {
		save := v.Solver.Timeout
		v.Solver.Timeout = 3 * save
		ch2 := make(chan *Obligation)
		var wg2 sync.WaitGroup
		for i := 0; i < 2; i++ {
			wg2.Add(1)
			go func() {
				defer wg2.Done()
				for o := range ch2 {
					first := o.Res
					tried := append([]string{"first-attempt:"}, first.Tried...)
					// three further attempts with other seeds, the last with the full budget
					for k, seed := range []int{11, 23, 0} {
						t := save
						if k == 2 {
							t = 3 * save
						}
						o.Res = v.Solver.CheckSeed(o.Name, o.Query(), false, t, seed, "")
						tried = append(append(tried, fmt.Sprintf("retry(seed %d):", seed)), o.Res.Tried...)
						if o.Res.Status == "unsat" || o.Res.Status == "sat" {
							break
						}
					}
					o.Res.Tried = tried
				}
			}()
		}
		for _, o := range retry {
			ch2 <- o
		}
		close(ch2)
		wg2.Wait()
		v.Solver.Timeout = save
	}
}

func (o *Obligation) Query() string {
	fc := o.fc
	var b strings.Builder
	// script first pass so that sorts/boxes/strings used are registered: they are, since terms were built already
	b.WriteString(fc.S.Header())
	for _, l := range fc.specHdr {
		b.WriteString(l)
		b.WriteByte('\n')
	}
	for _, l := range fc.script[:o.N] {
		b.WriteString(l)
		b.WriteByte('\n')
	}
	b.WriteString("(assert (not " + implies(o.Reach, o.Goal) + "))\n")
	return b.String()
}

func (o *Obligation) Solve(s *Solver) {
	if o.Goal == "true" || o.Reach == "false" {
		o.Res = SolverResult{Status: "unsat", Backend: "trivial"}
		return
	}
	q := o.Query()
	if o.Kind == "vacuity" {
		// must be satisfiable; a short timeout suffices, unknown is accepted as "not refuted"
		o.Res = s.CheckT(o.Name, q, false, minDur(s.Timeout, 2*time.Second))
		return
	}
	o.Res = s.Check(o.Name, q, false)
}

func minDur(a, b time.Duration) time.Duration {
	if a < b {
		return a
	}
	return b
}

// Discharged reports whether the obligation counts as proved.
func (o *Obligation) Discharged() bool {
	if o.Kind == "vacuity" {
		return o.Res.Status != "unsat" // the precondition must not be contradictory
	}
	return o.Res.Status == "unsat"
}

func (o *Obligation) DumpQuery(dir string) string {
	os.MkdirAll(dir, 0o755)
	p := filepath.Join(dir, sanitize(o.Name)+".smt2")
	os.WriteFile(p, []byte(o.Query()+"(check-sat)\n"), 0o644)
	return p
}

// assumeTableLiteral assumes that the package-level slice variable `name` still holds
// the contents of its composite literal (the frame obligations of the runtime show
// that no generated function writes the tables).
func (fc *FuncCtx) assumeTableLiteral(st *State, name string) {
	pkg := fc.Fn.Pkg
	if pkg == nil {
		specFail("tables: function has no package")
	}
	g, ok := pkg.Members[name].(*ssa.Global)
	if !ok {
		specFail("tables: no package-level variable %s", name)
	}
	var vals []string
	found := false
	for _, pp := range fc.V.Pkgs {
		if pp.Types != pkg.Pkg {
			continue
		}
		for _, f := range pp.Syntax {
			for _, d := range f.Decls {
				gd, ok := d.(*ast.GenDecl)
				if !ok {
					continue
				}
				for _, sp := range gd.Specs {
					vs, ok := sp.(*ast.ValueSpec)
					if !ok {
						continue
					}
					for i, id := range vs.Names {
						if id.Name != name || i >= len(vs.Values) {
							continue
						}
						cl, ok := vs.Values[i].(*ast.CompositeLit)
						if !ok {
							specFail("tables: %s is not initialised by a composite literal", name)
						}
						for _, e := range cl.Elts {
							tv, ok := pp.TypesInfo.Types[e]
							if !ok || tv.Value == nil {
								specFail("tables: %s has a non-constant element", name)
							}
							v, _ := constant.Int64Val(tv.Value)
							vals = append(vals, intLit(v))
						}
						found = true
					}
				}
			}
		}
	}
	if !found {
		specFail("tables: literal of %s not found", name)
	}
	if len(vals) > 600 {
		specFail("tables: %s has %d elements (cap 600)", name, len(vals))
	}
	et := g.Type().Underlying().(*types.Pointer).Elem()
	sl, ok := et.Underlying().(*types.Slice)
	if !ok {
		specFail("tables: %s is not a slice", name)
	}
	lv := &LValue{Kind: lvGlobal, Global: g, RootTy: et, Ty: et}
	gv := fc.load(st, lv)
	ek := fc.elemComp(sl.Elem())
	E := fc.get(st, ek)
	fc.assume("true", fmt.Sprintf("(= (s-len %s) %d)", gv, len(vals)))
	for k, v := range vals {
		fc.assume("true", "(= "+fc.at(sl.Elem(), E, gv, fmt.Sprint(k))+" "+v+")")
	}
	fc.noteAssumption(fmt.Sprintf("%s: the table %s holds its literal contents (%d entries)", fc.Key, name, len(vals)))
}
