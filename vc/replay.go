package vc

import (
	"encoding/json"
	"fmt"
	"go/types"
	"os"
	"path/filepath"
	"regexp"
	"strings"
	"time"

	"golang.org/x/tools/go/ssa"
)

// Replay of a solver counterexample on the real code, for functions whose
// parameters and results are plain values (integers, booleans, structs of those):
// the model's argument values are compiled into an in-package Go test that is
// injected with `go test -overlay` (nothing is written to /repo), the real
// function is run on them, and its observed result is compared with the result
// the model predicts. When they agree, the real code exhibits the violation of the
// postcondition on that input.

func valueType(t types.Type) bool {
	switch u := t.Underlying().(type) {
	case *types.Basic:
		return u.Info()&(types.IsInteger|types.IsBoolean) != 0
	case *types.Struct:
		for i := 0; i < u.NumFields(); i++ {
			if !valueType(u.Field(i).Type()) {
				return false
			}
		}
		return true
	}
	return false
}

func replayable(fn *ssa.Function) bool {
	if fn.Parent() != nil || fn.Pkg == nil || fn.Origin() != nil {
		return false
	}
	if len(fn.Params) == 0 {
		return false
	}
	for _, p := range fn.Params {
		if !valueType(p.Type()) {
			return false
		}
	}
	res := fn.Signature.Results()
	if res.Len() == 0 {
		return false
	}
	for i := 0; i < res.Len(); i++ {
		if !valueType(res.At(i).Type()) {
			return false
		}
	}
	return true
}

// sexp parsing of get-value output -------------------------------------------------

type sexp struct {
	atom string
	list []*sexp
}

func parseSexp(s string) (*sexp, string) {
	s = strings.TrimLeft(s, " \n\t")
	if s == "" {
		return nil, ""
	}
	if s[0] == '(' {
		n := &sexp{}
		s = s[1:]
		for {
			s = strings.TrimLeft(s, " \n\t")
			if s == "" {
				return n, ""
			}
			if s[0] == ')' {
				return n, s[1:]
			}
			var c *sexp
			c, s = parseSexp(s)
			if c == nil {
				return n, s
			}
			n.list = append(n.list, c)
		}
	}
	i := 0
	if s[0] == '|' {
		j := strings.IndexByte(s[1:], '|')
		return &sexp{atom: s[:j+2]}, s[j+2:]
	}
	for i < len(s) && !strings.ContainsRune(" \n\t()", rune(s[i])) {
		i++
	}
	return &sexp{atom: s[:i]}, s[i:]
}

// goLiteral turns a model value into a Go expression of type t.
func (fc *FuncCtx) goLiteral(v *sexp, t types.Type, qual types.Qualifier) (string, bool) {
	switch u := t.Underlying().(type) {
	case *types.Basic:
		if u.Info()&types.IsBoolean != 0 {
			return v.atom, v.atom == "true" || v.atom == "false"
		}
		if v.atom != "" {
			return fmt.Sprintf("%s(%s)", types.TypeString(t, qual), v.atom), true
		}
		if len(v.list) == 2 && v.list[0].atom == "-" {
			return fmt.Sprintf("%s(-%s)", types.TypeString(t, qual), v.list[1].atom), true
		}
	case *types.Struct:
		if len(v.list) != u.NumFields()+1 {
			if u.NumFields() == 0 {
				return types.TypeString(t, qual) + "{}", true
			}
			return "", false
		}
		var parts []string
		for i := 0; i < u.NumFields(); i++ {
			p, ok := fc.goLiteral(v.list[i+1], u.Field(i).Type(), qual)
			if !ok {
				return "", false
			}
			parts = append(parts, u.Field(i).Name()+": "+p)
		}
		return types.TypeString(t, qual) + "{" + strings.Join(parts, ", ") + "}", true
	}
	return "", false
}

var replayLine = regexp.MustCompile(`(?m)^VERIF-REPLAY (.*)$`)

// tryReplay returns a record describing the replay and whether the real code
// reproduced the violation.
func (r *checkRun) tryReplay(o *Obligation) (map[string]any, bool) {
	fc := o.fc
	fn := fc.Fn
	if o.Kind != "post" || o.Res.Status != "sat" || !replayable(fn) || len(o.ResultTerms) == 0 {
		return nil, false
	}
	// ask for the values of the parameters and of the returned values
	var names []string
	for pi, p := range fn.Params {
		if p.Name() == "_" {
			names = append(names, fmt.Sprintf("p_blank%d", pi))
		} else {
			names = append(names, "p_"+sanitize(p.Name()))
		}
	}
	names = append(names, o.ResultTerms...)
	q := "(set-option :produce-models true)\n" + o.Query() + "(check-sat)\n(get-value (" + strings.Join(names, " ") + "))\n"
	qf := filepath.Join(r.scratch, "replay_"+sanitize(o.Name)+".smt2")
	os.WriteFile(qf, []byte(q), 0o644)
	out, _ := runCmd(r.scratch, 60*time.Second, "z3-new", "-T:30", qf)
	if !strings.HasPrefix(strings.TrimSpace(out), "sat") {
		return nil, false
	}
	vals, _ := parseSexp(out[strings.Index(out, "sat")+3:])
	if vals == nil || len(vals.list) != len(names) {
		return nil, false
	}
	qual := func(p *types.Package) string {
		if p == fn.Pkg.Pkg {
			return ""
		}
		return p.Name()
	}
	var args []string
	inputs := map[string]string{}
	for i, p := range fn.Params {
		lit, ok := fc.goLiteral(vals.list[i].list[1], p.Type(), qual)
		if !ok {
			return nil, false
		}
		args = append(args, lit)
		inputs[p.Name()] = lit
	}
	res := fn.Signature.Results()
	var predicted []string
	for i := 0; i < res.Len(); i++ {
		lit, ok := fc.goLiteral(vals.list[len(fn.Params)+i].list[1], res.At(i).Type(), qual)
		if !ok {
			return nil, false
		}
		predicted = append(predicted, lit)
	}
	// the call expression
	call := fn.Name() + "(" + strings.Join(args, ", ") + ")"
	if fn.Signature.Recv() != nil {
		call = "(" + args[0] + ")." + fn.Name() + "(" + strings.Join(args[1:], ", ") + ")"
	}
	var lhs, prints []string
	for i := 0; i < res.Len(); i++ {
		lhs = append(lhs, fmt.Sprintf("r%d", i))
		prints = append(prints, fmt.Sprintf("r%d == %s", i, predicted[i]))
	}
	dir := fn.Pkg.Pkg.Path()
	dir = strings.TrimPrefix(dir, modPath)
	pkgDir := filepath.Join(r.repo, dir)
	src := fmt.Sprintf(`package %s

import (
	"fmt"
	"testing"
)

func TestVerifReplay(t *testing.T) {
	%s := %s
	fmt.Printf("VERIF-REPLAY agrees=%%v observed=%%#v\n", %s, []any{%s})
}
`, fn.Pkg.Pkg.Name(), strings.Join(lhs, ", "), call, strings.Join(prints, " && "), strings.Join(lhs, ", "))
	testFile := filepath.Join(r.scratch, "zz_verif_replay_test.go")
	os.WriteFile(testFile, []byte(src), 0o644)
	ov, _ := json.Marshal(map[string]any{"Replace": map[string]string{filepath.Join(pkgDir, "zz_verif_replay_test.go"): testFile}})
	ovFile := filepath.Join(r.scratch, "replay-overlay.json")
	os.WriteFile(ovFile, ov, 0o644)
	tout, _ := runCmd(r.repo, 3*time.Minute, "go", "test", "-overlay", ovFile, "-vet=off", "-count=1", "-v", "-timeout", "60s", "-run", "^TestVerifReplay$", "."+dir)
	m := replayLine.FindStringSubmatch(tout)
	rec := map[string]any{
		"inputs":            inputs,
		"call":              call,
		"predicted_results": predicted,
		"test_source":       src,
		"go_test_output":    truncate(tout, 1500),
	}
	if m == nil {
		rec["outcome"] = "the replay test did not run"
		return rec, false
	}
	rec["observed"] = m[1]
	agrees := strings.Contains(m[1], "agrees=true")
	if agrees {
		rec["outcome"] = "the real function returns the value the counterexample predicts: the postcondition is violated on this input"
	} else {
		rec["outcome"] = "the real function returns a different value than the model predicts (spurious counterexample)"
	}
	return rec, agrees
}
