package vc

import (
	"fmt"
	"go/types"
	"strings"

	"golang.org/x/tools/go/ssa"
)

type unsupported string

func (u unsupported) Error() string { return string(u) }

// Val is a symbolic value: an SMT term with its Go type, or an address.
type Val struct {
	T     string
	Ty    types.Type // nil: mathematical Int/Bool from a spec (Sort tells which)
	Sort  string     // SMT sort when Ty == nil
	LV    *LValue    // pointer-typed value denoting an address that is not a plain heap reference
	Fn    *ssa.Function
	Clo   *ssa.MakeClosure
	Tuple []Val
	IsNil bool
}

const (
	lvCell      = iota // local variable (ssa.Alloc that does not escape)
	lvHeapField        // field f of heap struct at Ref
	lvElem             // element Idx of backing array Base
	lvGlobal
)

type pathStep struct {
	Field int        // struct field index, or -1 for array index
	Index string     // array index term
	Ty    types.Type // type of the container the step applies to
}

type LValue struct {
	Kind   int
	Cell   *ssa.Alloc
	Global *ssa.Global
	Ref    string
	Struct types.Type // the (named) struct type for lvHeapField
	Field  int
	Base   string
	Idx    string
	ElemTy types.Type
	SliceT string // slice term and index for accessor-style reads (lvElem through a slice)
	SliceI string
	RootTy types.Type // type of the root storage location
	Path   []pathStep
	Ty     types.Type // type of the addressed value
}

// State maps component keys to their current SMT term.
type State struct {
	m    map[string]string
	bind *[]string // binding mode (opaque function bodies): components read are recorded here
}

func newState() *State { return &State{m: map[string]string{}} }
func (s *State) clone() *State {
	n := newState()
	n.bind = s.bind
	for k, v := range s.m {
		n.m[k] = v
	}
	return n
}

// component keys
// cellKey names a local variable by its position in its function (block and instruction
// index), so that the SMT text of a function is the same in every run.
func cellKey(a *ssa.Alloc) string {
	bi, ii := -1, -1
	if b := a.Block(); b != nil {
		bi = b.Index
		for i, ins := range b.Instrs {
			if ins == ssa.Instruction(a) {
				ii = i
				break
			}
		}
	}
	fn := ""
	if a.Parent() != nil {
		fn = a.Parent().Name()
	}
	return fmt.Sprintf("cell:%s:%s.b%di%d", a.Name(), fn, bi, ii)
}
func heapKey(st types.Type, field string) string {
	return "H:" + types.TypeString(st, nil) + "." + field
}
func elemKey(t types.Type) string { return "E:" + types.TypeString(t, nil) }
func mapDomKey(m *types.Map) string { return "Mdom:" + types.TypeString(m, nil) }
func mapValKey(m *types.Map) string { return "Mval:" + types.TypeString(m, nil) }
func globalKey(g *ssa.Global) string {
	return "G:" + g.Pkg.Pkg.Path() + "." + g.Name()
}

const nextKey = "next"

func derefStruct(t types.Type) (types.Type, bool) {
	p, ok := t.Underlying().(*types.Pointer)
	if !ok {
		return nil, false
	}
	if _, ok := p.Elem().Underlying().(*types.Struct); ok {
		return p.Elem(), true
	}
	return nil, false
}

func isPointerLike(t types.Type) bool {
	switch t.Underlying().(type) {
	case *types.Pointer, *types.Map, *types.Chan, *types.Signature:
		return true
	}
	return false
}

func and(parts ...string) string {
	var ps []string
	for _, p := range parts {
		if p == "" || p == "true" {
			continue
		}
		if p == "false" {
			return "false"
		}
		ps = append(ps, p)
	}
	switch len(ps) {
	case 0:
		return "true"
	case 1:
		return ps[0]
	}
	return "(and " + strings.Join(ps, " ") + ")"
}

func or(parts ...string) string {
	var ps []string
	for _, p := range parts {
		if p == "" || p == "false" {
			continue
		}
		if p == "true" {
			return "true"
		}
		ps = append(ps, p)
	}
	switch len(ps) {
	case 0:
		return "false"
	case 1:
		return ps[0]
	}
	return "(or " + strings.Join(ps, " ") + ")"
}

func not(p string) string {
	switch p {
	case "true":
		return "false"
	case "false":
		return "true"
	}
	return "(not " + p + ")"
}

func implies(a, b string) string {
	if a == "true" {
		return b
	}
	if b == "true" || a == "false" {
		return "true"
	}
	return "(=> " + a + " " + b + ")"
}

func intLit(v int64) string {
	if v < 0 {
		if v == -9223372036854775808 {
			return "(- 9223372036854775808)"
		}
		return fmt.Sprintf("(- %d)", -v)
	}
	return fmt.Sprint(v)
}
