package vc

import (
	"fmt"
	"strings"
)

func (v *Verifier) DumpKeys(sub string) {
	for _, k := range sortedKeys(v.funcsByKey) {
		if strings.Contains(k, sub) {
			for _, f := range v.funcsByKey[k] {
				fmt.Println(k, " => ", f.String())
			}
		}
	}
}
