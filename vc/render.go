package vc

import (
	"fmt"
	"os"
	"path/filepath"
	"strings"
	"sync"
	"time"
)

// Rendering of the generated runtime: build cmd/lox from the repository's
// working tree, run it over a fixture copied to scratch space, and load the
// rendered package.

var loxBuild struct {
	sync.Mutex
	path string
	err  error
	repo string
}

func (r *checkRun) buildLox() (string, error) {
	loxBuild.Lock()
	defer loxBuild.Unlock()
	if loxBuild.path != "" && loxBuild.repo == r.repo {
		return loxBuild.path, loxBuild.err
	}
	out := filepath.Join(r.scratch, "lox-bin")
	o, err := runCmd(r.repo, 5*time.Minute, "go", "build", "-o", out, "./cmd/lox")
	if err != nil {
		err = fmt.Errorf("go build ./cmd/lox: %v\n%s", err, o)
	}
	loxBuild.path, loxBuild.err, loxBuild.repo = out, err, r.repo
	return out, err
}

func copyDir(src, dst string) error {
	return filepath.Walk(src, func(p string, info os.FileInfo, err error) error {
		if err != nil {
			return err
		}
		rel, _ := filepath.Rel(src, p)
		t := filepath.Join(dst, rel)
		if info.IsDir() {
			return os.MkdirAll(t, 0o755)
		}
		if strings.HasSuffix(p, ".gen.go") {
			return nil
		}
		data, err := os.ReadFile(p)
		if err != nil {
			return err
		}
		return os.WriteFile(t, data, 0o644)
	})
}

// renderFixture returns the directory holding the rendered package.
func (r *checkRun) renderFixture(name string) (string, error) {
	lox, err := r.buildLox()
	if err != nil {
		return "", err
	}
	src := filepath.Join("/verif/fixtures", name)
	if strings.HasPrefix(name, "repo:") {
		src = filepath.Join(r.repo, strings.TrimPrefix(name, "repo:"))
		name = "repo_" + sanitize(strings.TrimPrefix(name, "repo:"))
	}
	dst := filepath.Join(r.scratch, "fx", name)
	if _, err := os.Stat(filepath.Join(dst, "go.mod")); err == nil {
		return dst, nil
	}
	if err := copyDir(src, dst); err != nil {
		return "", err
	}
	gomod := fmt.Sprintf("module fixture/%s\n\ngo 1.23.0\n", name)
	needsLoxlex := false
	ents, _ := os.ReadDir(dst)
	for _, e := range ents {
		if strings.HasSuffix(e.Name(), ".go") {
			data, _ := os.ReadFile(filepath.Join(dst, e.Name()))
			if strings.Contains(string(data), "github.com/dcaiafa/loxlex") {
				needsLoxlex = true
			}
		}
	}
	if needsLoxlex {
		gomod += "\nrequire github.com/dcaiafa/loxlex v0.5.0\n"
		if data, err := os.ReadFile(filepath.Join(r.repo, "go.sum")); err == nil {
			os.WriteFile(filepath.Join(dst, "go.sum"), data, 0o644)
		}
	}
	if err := os.WriteFile(filepath.Join(dst, "go.mod"), []byte(gomod), 0o644); err != nil {
		return "", err
	}
	o, err := runCmd(dst, 3*time.Minute, lox, ".")
	if err != nil {
		return "", fmt.Errorf("lox failed on fixture %s: %v\n%s", name, err, o)
	}
	return dst, nil
}

func (r *checkRun) verifyRuntime(rp RuntimePlan) ([]*FuncResult, error) {
	dir, err := r.renderFixture(rp.Fixture)
	if err != nil {
		return nil, err
	}
	v, err := Load(dir, []string{"."}, nil)
	if err != nil {
		return nil, err
	}
	cs, err := r.contracts()
	if err != nil {
		return nil, err
	}
	v.CS = cs
	v.Solver = &Solver{Timeout: r.timeout, Dir: r.scratch}
	pkgPath := v.Pkgs[0].PkgPath
	var results []*FuncResult
	for _, f := range rp.Functions {
		fns := v.FindFunctions(pkgPath + "." + f)
		if len(fns) == 0 && strings.HasPrefix(f, "fxParser.") {
			// other fixtures name their parser type differently: take the unique type with this method
			m := strings.TrimPrefix(f, "fxParser")
			var cands []string
			for k := range v.funcsByKey {
				if strings.HasPrefix(k, pkgPath+".") && strings.HasSuffix(k, m) && !strings.Contains(k, "._Stack.") && !strings.Contains(k, "._LexerStateMachine.") && strings.Count(strings.TrimPrefix(k, pkgPath+"."), ".") == 1 {
					cands = append(cands, k)
				}
			}
			if len(cands) == 1 {
				fns = v.FindFunctions(cands[0])
			}
		}
		disp0 := "runtime." + f + "@" + rp.Fixture
		if len(fns) == 0 {
			results = append(results, &FuncResult{Key: disp0, Err: "runtime function not found in the rendered fixture"})
			continue
		}
		for i, fn := range fns {
			ct := v.contractFor(fn)
			disp := disp0
			if len(fns) > 1 {
				disp = fmt.Sprintf("%s[%s]", disp0, instanceTag(fn.String(), i))
			}
			if ct == nil {
				results = append(results, &FuncResult{Key: disp, Err: "no runtime contract found"})
				continue
			}
			results = append(results, v.VerifyFunc(fn, ct, disp))
		}
	}
	v.Discharge(results, 8)
	return results, nil
}
