package vc

import (
	"sync"
	"encoding/json"
	"flag"
	"fmt"
	"os"
	"strings"
	"time"
)

// Main is the CLI entry point.
func Main(args []string) int {
	if len(args) == 0 {
		fmt.Fprintln(os.Stderr, "usage: loxvc verify|check ...")
		return 2
	}
	switch args[0] {
	case "verify":
		return cmdVerify(args[1:])
	case "check":
		return cmdCheck(args[1:])
	case "replay":
		if len(args) < 2 {
			fmt.Fprintln(os.Stderr, "usage: loxvc replay <file>")
			return 2
		}
		return cmdReplay(args[1])
	case "sweep":
		return cmdSweep(args[1:])
	case "keys":
		v, err := Load(args[1], []string{"."}, nil)
		if err != nil {
			fmt.Println(err)
			return 2
		}
		v.DumpKeys(args[2])
		return 0
	}
	fmt.Fprintln(os.Stderr, "unknown command", args[0])
	return 2
}

func cmdVerify(args []string) int {
	fs := flag.NewFlagSet("verify", flag.ExitOnError)
	repo := fs.String("repo", "/repo", "repository root")
	pkgs := fs.String("pkgs", "", "comma-separated package patterns")
	funcs := fs.String("funcs", "", "comma-separated contract keys (default: all contracts in loaded packages)")
	timeout := fs.Duration("timeout", 10*time.Second, "per-query timeout")
	dump := fs.String("dump", "", "directory to dump failed queries into")
	verbose := fs.Bool("v", false, "verbose")
	dirFlag := fs.String("dir", "", "load this directory (a rendered fixture) instead of -repo/-pkgs")
	only := fs.String("only", "", "only solve obligations whose name contains this substring")
	dumpAll := fs.String("dumpall", "", "write the query of every obligation into this directory and stop")
	stress := fs.Int("stress", 0, "run every obligation with this many random seeds on each solver and report the fragile ones")
	fs.Parse(args)
	loadDir, loadPkgs := *repo, strings.Split(*pkgs, ",")
	if *dirFlag != "" {
		loadDir, loadPkgs = *dirFlag, []string{"."}
	}
	v, err := Load(loadDir, loadPkgs, nil)
	if err != nil {
		fmt.Fprintln(os.Stderr, "load:", err)
		return 2
	}
	cs := NewContractSet()
	if err := cs.LoadRepoContracts(*repo, "github.com/dcaiafa/lox"); err != nil {
		fmt.Fprintln(os.Stderr, "contracts:", err)
		return 2
	}
	if err := cs.LoadDir("/verif/contracts"); err != nil {
		fmt.Fprintln(os.Stderr, "contracts:", err)
		return 2
	}
	v.CS = cs
	v.Verbose = *verbose
	dir, _ := os.MkdirTemp("", "loxvc")
	defer os.RemoveAll(dir)
	v.Solver = &Solver{Timeout: *timeout, Dir: dir}
	var keys []string
	if *funcs != "" {
		keys = strings.Split(*funcs, ",")
	} else {
		for _, k := range sortedKeys(cs.Funcs) {
			if !cs.Funcs[k].Trusted && len(v.FindFunctions(k)) > 0 {
				keys = append(keys, k)
			}
		}
	}
	var results []*FuncResult
	for _, k := range keys {
		fns := v.FindFunctions(k)
		if len(fns) == 0 && *dirFlag != "" {
			fns = v.FindFunctions(v.Pkgs[0].PkgPath + "." + k)
		}
		if len(fns) == 0 {
			fmt.Printf("NOT FOUND %s\n", k)
			continue
		}
		for i, fn := range fns {
			disp := displayName(k)
			if len(fns) > 1 {
				disp = fmt.Sprintf("%s[%d]", disp, i)
			}
			r := v.VerifyFunc(fn, v.contractFor(fn), disp)
			results = append(results, r)
		}
	}
	if *only != "" {
		for _, r := range results {
			var keep []*Obligation
			for _, o := range r.Obls {
				if strings.Contains(o.Name, *only) {
					keep = append(keep, o)
				}
			}
			r.Obls = keep
		}
	}
	if *dumpAll != "" {
		for _, r := range results {
			for _, o := range r.Obls {
				o.DumpQuery(*dumpAll)
			}
		}
		return 0
	}
	if *stress > 0 {
		return stressRun(v, results, *stress)
	}
	v.Discharge(results, 8)
	bad := 0
	for _, r := range results {
		if r.Err != "" {
			fmt.Printf("ERROR %s: %s\n", r.Key, r.Err)
			bad++
			continue
		}
		ok := 0
		for _, o := range r.Obls {
			if o.Discharged() {
				ok++
				if *verbose {
					fmt.Printf("  ok   %s [%s %.2fs]\n", o.Name, o.Res.Backend, o.Res.Time)
				}
			} else {
				bad++
				fmt.Printf("  FAIL %s: %s  -- %s [%s] %s\n", o.Name, o.Res.Status, o.Text, o.Pos, strings.Join(o.Res.Tried, " "))
				if *dump != "" {
					fmt.Printf("       query: %s\n", o.DumpQuery(*dump))
				}
			}
		}
		fmt.Printf("%s: %d/%d discharged (%s)\n", r.Key, ok, len(r.Obls), r.Func)
	}
	if bad > 0 {
		return 1
	}
	return 0
}

func displayName(key string) string {
	// github.com/dcaiafa/lox/internal/lexergen/rang3.Flatten -> rang3.Flatten
	if i := strings.LastIndex(key, "/"); i >= 0 {
		return key[i+1:]
	}
	return key
}


// cmdReplay shows a replay record and, where it names a solver query, re-runs the
// query so that the failed obligation can be inspected again.
func cmdReplay(path string) int {
	data, err := os.ReadFile(path)
	if err != nil {
		fmt.Fprintln(os.Stderr, err)
		return 2
	}
	fmt.Println(string(data))
	var m map[string]any
	if json.Unmarshal(data, &m) != nil {
		return 0
	}
	if q, ok := m["query"].(string); ok {
		if _, err := os.Stat(q); err == nil {
			out, _ := runCmd("/verif", 2*time.Minute, "z3-new", "-T:60", q)
			fmt.Printf("re-run of %s with z3 5.1.0: %s\n", q, strings.TrimSpace(out))
		}
	}
	if lbl, _ := m["label"].(string); lbl == "bounded" {
		fmt.Printf("bounded witness: re-run ./check %v quick to execute the input against the current tree\n", m["property"])
	}
	return 0
}

// stressRun: every non-vacuity obligation is solved with seeds 1..n by each back end on
// its own. An obligation is "fragile" when for some seed no back end proves it (the race
// could lose it), "thin" when a single back end carries it for every seed.
func stressRun(v *Verifier, results []*FuncResult, n int) int {
	type job struct {
		o    *Obligation
		seed int
		be   string
	}
	var obls []*Obligation
	for _, r := range results {
		for _, o := range r.Obls {
			if o.Kind != "vacuity" && o.Goal != "true" && o.Reach != "false" {
				obls = append(obls, o)
			}
		}
	}
	bes := []string{"z3-5.1.0", "z3-4.8.12", "cvc5-1.0.3"}
	ok := map[*Obligation]map[int]map[string]bool{}
	var mu sync.Mutex
	ch := make(chan job)
	var wg sync.WaitGroup
	for w := 0; w < 14; w++ {
		wg.Add(1)
		go func() {
			defer wg.Done()
			for j := range ch {
				res := v.Solver.CheckSeed(j.o.Name, j.o.Query(), false, v.Solver.Timeout, j.seed, j.be)
				mu.Lock()
				if ok[j.o] == nil {
					ok[j.o] = map[int]map[string]bool{}
				}
				if ok[j.o][j.seed] == nil {
					ok[j.o][j.seed] = map[string]bool{}
				}
				ok[j.o][j.seed][j.be] = res.Status == "unsat"
				mu.Unlock()
			}
		}()
	}
	for _, o := range obls {
		for seed := 1; seed <= n; seed++ {
			for _, be := range bes {
				ch <- job{o, seed, be}
			}
		}
	}
	close(ch)
	wg.Wait()
	fragile, thin := 0, 0
	for _, o := range obls {
		worst := len(bes)
		per := map[string]int{}
		for seed := 1; seed <= n; seed++ {
			c := 0
			for _, be := range bes {
				if ok[o][seed][be] {
					c++
					per[be]++
				}
			}
			if c < worst {
				worst = c
			}
		}
		switch {
		case worst == 0:
			fragile++
			fmt.Printf("FRAGILE %s: some seed leaves no back end with a proof (proofs per back end over %d seeds: %v)\n", o.Name, n, per)
		case worst == 1:
			thin++
			fmt.Printf("THIN    %s: a single back end carries it for some seed (%v)\n", o.Name, per)
		}
	}
	fmt.Printf("stress: %d obligations x %d seeds x %d back ends: %d fragile, %d thin\n", len(obls), n, len(bes), fragile, thin)
	return 0
}
