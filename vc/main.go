package vc

import (
	"encoding/json"
	"flag"
	"fmt"
	"os"
	"strings"
	"time"
)

// Main is the CLI entry point.
func Main(args []string) int {
	if len(args) == 0 {
		fmt.Fprintln(os.Stderr, "usage: loxvc verify|check ...")
		return 2
	}
	switch args[0] {
	case "verify":
		return cmdVerify(args[1:])
	case "check":
		return cmdCheck(args[1:])
	case "replay":
		if len(args) < 2 {
			fmt.Fprintln(os.Stderr, "usage: loxvc replay <file>")
			return 2
		}
		return cmdReplay(args[1])
	case "sweep":
		return cmdSweep(args[1:])
	case "keys":
		v, err := Load(args[1], []string{"."}, nil)
		if err != nil {
			fmt.Println(err)
			return 2
		}
		v.DumpKeys(args[2])
		return 0
	}
	fmt.Fprintln(os.Stderr, "unknown command", args[0])
	return 2
}

func cmdVerify(args []string) int {
	fs := flag.NewFlagSet("verify", flag.ExitOnError)
	repo := fs.String("repo", "/repo", "repository root")
	pkgs := fs.String("pkgs", "", "comma-separated package patterns")
	funcs := fs.String("funcs", "", "comma-separated contract keys (default: all contracts in loaded packages)")
	timeout := fs.Duration("timeout", 10*time.Second, "per-query timeout")
	dump := fs.String("dump", "", "directory to dump failed queries into")
	verbose := fs.Bool("v", false, "verbose")
	dirFlag := fs.String("dir", "", "load this directory (a rendered fixture) instead of -repo/-pkgs")
	only := fs.String("only", "", "only solve obligations whose name contains this substring")
	fs.Parse(args)
	loadDir, loadPkgs := *repo, strings.Split(*pkgs, ",")
	if *dirFlag != "" {
		loadDir, loadPkgs = *dirFlag, []string{"."}
	}
	v, err := Load(loadDir, loadPkgs, nil)
	if err != nil {
		fmt.Fprintln(os.Stderr, "load:", err)
		return 2
	}
	cs := NewContractSet()
	if err := cs.LoadRepoContracts(*repo, "github.com/dcaiafa/lox"); err != nil {
		fmt.Fprintln(os.Stderr, "contracts:", err)
		return 2
	}
	if err := cs.LoadDir("/verif/contracts"); err != nil {
		fmt.Fprintln(os.Stderr, "contracts:", err)
		return 2
	}
	v.CS = cs
	v.Verbose = *verbose
	dir, _ := os.MkdirTemp("", "loxvc")
	defer os.RemoveAll(dir)
	v.Solver = &Solver{Timeout: *timeout, Dir: dir}
	var keys []string
	if *funcs != "" {
		keys = strings.Split(*funcs, ",")
	} else {
		for _, k := range sortedKeys(cs.Funcs) {
			if !cs.Funcs[k].Trusted && len(v.FindFunctions(k)) > 0 {
				keys = append(keys, k)
			}
		}
	}
	var results []*FuncResult
	for _, k := range keys {
		fns := v.FindFunctions(k)
		if len(fns) == 0 && *dirFlag != "" {
			fns = v.FindFunctions(v.Pkgs[0].PkgPath + "." + k)
		}
		if len(fns) == 0 {
			fmt.Printf("NOT FOUND %s\n", k)
			continue
		}
		for i, fn := range fns {
			disp := displayName(k)
			if len(fns) > 1 {
				disp = fmt.Sprintf("%s[%d]", disp, i)
			}
			r := v.VerifyFunc(fn, v.contractFor(fn), disp)
			results = append(results, r)
		}
	}
	if *only != "" {
		for _, r := range results {
			var keep []*Obligation
			for _, o := range r.Obls {
				if strings.Contains(o.Name, *only) {
					keep = append(keep, o)
				}
			}
			r.Obls = keep
		}
	}
	v.Discharge(results, 8)
	bad := 0
	for _, r := range results {
		if r.Err != "" {
			fmt.Printf("ERROR %s: %s\n", r.Key, r.Err)
			bad++
			continue
		}
		ok := 0
		for _, o := range r.Obls {
			if o.Discharged() {
				ok++
				if *verbose {
					fmt.Printf("  ok   %s [%s %.2fs]\n", o.Name, o.Res.Backend, o.Res.Time)
				}
			} else {
				bad++
				fmt.Printf("  FAIL %s: %s  -- %s [%s] %s\n", o.Name, o.Res.Status, o.Text, o.Pos, strings.Join(o.Res.Tried, " "))
				if *dump != "" {
					fmt.Printf("       query: %s\n", o.DumpQuery(*dump))
				}
			}
		}
		fmt.Printf("%s: %d/%d discharged (%s)\n", r.Key, ok, len(r.Obls), r.Func)
	}
	if bad > 0 {
		return 1
	}
	return 0
}

func displayName(key string) string {
	// github.com/dcaiafa/lox/internal/lexergen/rang3.Flatten -> rang3.Flatten
	if i := strings.LastIndex(key, "/"); i >= 0 {
		return key[i+1:]
	}
	return key
}


// cmdReplay shows a replay record and, where it names a solver query, re-runs the
// query so that the failed obligation can be inspected again.
func cmdReplay(path string) int {
	data, err := os.ReadFile(path)
	if err != nil {
		fmt.Fprintln(os.Stderr, err)
		return 2
	}
	fmt.Println(string(data))
	var m map[string]any
	if json.Unmarshal(data, &m) != nil {
		return 0
	}
	if q, ok := m["query"].(string); ok {
		if _, err := os.Stat(q); err == nil {
			out, _ := runCmd("/verif", 2*time.Minute, "z3-new", "-T:60", q)
			fmt.Printf("re-run of %s with z3 5.1.0: %s\n", q, strings.TrimSpace(out))
		}
	}
	if lbl, _ := m["label"].(string); lbl == "bounded" {
		fmt.Printf("bounded witness: re-run ./check %v quick to execute the input against the current tree\n", m["property"])
	}
	return 0
}
