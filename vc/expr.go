package vc

// Expression language of the //@ contracts: Go-flavoured expressions plus
// forall/exists, ==>, <==>, old(), pre(), result.

import (
	"fmt"
	"strings"
	"unicode"
)

type Expr interface{ String() string }

type (
	EIdent struct{ Name string }
	ENum   struct{ V string } // decimal integer text
	EStr   struct{ V string }
	EBool  struct{ V bool }
	EUn    struct {
		Op string
		X  Expr
	}
	EBin struct {
		Op   string
		X, Y Expr
	}
	ESel struct {
		X    Expr
		Name string
	}
	EIndex struct{ X, I Expr }
	ESlice struct{ X, Lo, Hi Expr }
	ECall  struct {
		Fn   Expr
		Args []Expr
	}
	EQuant struct {
		Forall bool
		Vars   []Binder
		Body   Expr
		Pats   [][]Expr
	}
	EComposite struct {
		Type TypeExpr
		Args []Expr
	}
	ECond struct{ C, A, B Expr } // ite(c,a,b)
)

type Binder struct {
	Name string
	Type TypeExpr
}

// TypeExpr is a syntactic type: "int", "rune", "Range", "*T", "[]T", "pkg.T".
type TypeExpr struct {
	Kind string // "name", "ptr", "slice", "map"
	Args []TypeExpr // type arguments of a generic named type
	Name string
	Elem *TypeExpr
	Key  *TypeExpr
}

func (t TypeExpr) String() string {
	switch t.Kind {
	case "ptr":
		return "*" + t.Elem.String()
	case "slice":
		return "[]" + t.Elem.String()
	case "map":
		return "map[" + t.Key.String() + "]" + t.Elem.String()
	}
	if len(t.Args) > 0 {
		var a []string
		for _, x := range t.Args {
			a = append(a, x.String())
		}
		return t.Name + "[" + strings.Join(a, ",") + "]"
	}
	return t.Name
}

func (e EIdent) String() string { return e.Name }
func (e ENum) String() string   { return e.V }
func (e EStr) String() string   { return fmt.Sprintf("%q", e.V) }
func (e EBool) String() string  { return fmt.Sprint(e.V) }
func (e EUn) String() string    { return e.Op + e.X.String() }
func (e EBin) String() string   { return "(" + e.X.String() + " " + e.Op + " " + e.Y.String() + ")" }
func (e ESel) String() string   { return e.X.String() + "." + e.Name }
func (e EIndex) String() string { return e.X.String() + "[" + e.I.String() + "]" }
func (e ESlice) String() string {
	lo, hi := "", ""
	if e.Lo != nil {
		lo = e.Lo.String()
	}
	if e.Hi != nil {
		hi = e.Hi.String()
	}
	return e.X.String() + "[" + lo + ":" + hi + "]"
}
func (e ECall) String() string {
	var a []string
	for _, x := range e.Args {
		a = append(a, x.String())
	}
	return e.Fn.String() + "(" + strings.Join(a, ", ") + ")"
}
func (e EQuant) String() string {
	q := "exists"
	if e.Forall {
		q = "forall"
	}
	var b []string
	for _, v := range e.Vars {
		b = append(b, v.Name+" "+v.Type.String())
	}
	return "(" + q + " " + strings.Join(b, ", ") + " :: " + e.Body.String() + ")"
}
func (e EComposite) String() string {
	var a []string
	for _, x := range e.Args {
		a = append(a, x.String())
	}
	return e.Type.String() + "{" + strings.Join(a, ", ") + "}"
}
func (e ECond) String() string {
	return "ite(" + e.C.String() + ", " + e.A.String() + ", " + e.B.String() + ")"
}

type tok struct {
	kind string // ident num str char op eof
	text string
	pos  int
}

type lexer struct {
	src  string
	toks []tok
}

func lex(src string) ([]tok, error) {
	var toks []tok
	i := 0
	for i < len(src) {
		c := src[i]
		switch {
		case c == ' ' || c == '\t' || c == '\n':
			i++
		case unicode.IsLetter(rune(c)) || c == '_' || c == '$':
			j := i + 1
			for j < len(src) && (unicode.IsLetter(rune(src[j])) || unicode.IsDigit(rune(src[j])) || src[j] == '_' || src[j] == '$' || src[j] == '#') {
				j++
			}
			toks = append(toks, tok{"ident", src[i:j], i})
			i = j
		case c >= '0' && c <= '9':
			j := i + 1
			for j < len(src) && (unicode.IsDigit(rune(src[j])) || unicode.IsLetter(rune(src[j]))) {
				j++
			}
			toks = append(toks, tok{"num", src[i:j], i})
			i = j
		case c == '"':
			j := i + 1
			for j < len(src) && src[j] != '"' {
				if src[j] == '\\' {
					j++
				}
				j++
			}
			if j >= len(src) {
				return nil, fmt.Errorf("unterminated string")
			}
			toks = append(toks, tok{"str", src[i+1 : j], i})
			i = j + 1
		case c == '\'':
			j := i + 1
			for j < len(src) && src[j] != '\'' {
				if src[j] == '\\' {
					j++
				}
				j++
			}
			if j >= len(src) {
				return nil, fmt.Errorf("unterminated char")
			}
			toks = append(toks, tok{"char", src[i+1 : j], i})
			i = j + 1
		default:
			ops := []string{"<==>", "==>", "::", "&&", "||", "==", "!=", "<=", ">=", "<", ">", "+", "-", "*", "/", "%", "!", "(", ")", "[", "]", "{", "}", ".", ",", ":", "&"}
			matched := false
			for _, op := range ops {
				if strings.HasPrefix(src[i:], op) {
					toks = append(toks, tok{"op", op, i})
					i += len(op)
					matched = true
					break
				}
			}
			if !matched {
				return nil, fmt.Errorf("unexpected character %q at %d in %q", c, i, src)
			}
		}
	}
	toks = append(toks, tok{"eof", "", len(src)})
	return toks, nil
}

type parser struct {
	toks []tok
	p    int
	src  string
}

func ParseExpr(src string) (e Expr, err error) {
	toks, err := lex(src)
	if err != nil {
		return nil, err
	}
	p := &parser{toks: toks, src: src}
	defer func() {
		if r := recover(); r != nil {
			if pe, ok := r.(parseErr); ok {
				err = fmt.Errorf("%s in %q", string(pe), src)
				return
			}
			panic(r)
		}
	}()
	e = p.expr()
	if p.peek().kind != "eof" {
		p.fail("unexpected %q", p.peek().text)
	}
	return e, nil
}

type parseErr string

func (p *parser) fail(f string, a ...any) { panic(parseErr(fmt.Sprintf(f, a...))) }
func (p *parser) peek() tok             { return p.toks[p.p] }
func (p *parser) next() tok             { t := p.toks[p.p]; p.p++; return t }
func (p *parser) isOp(s string) bool      { t := p.peek(); return t.kind == "op" && t.text == s }
func (p *parser) isIdent(s string) bool   { t := p.peek(); return t.kind == "ident" && t.text == s }
func (p *parser) accept(s string) bool {
	if p.isOp(s) {
		p.p++
		return true
	}
	return false
}
func (p *parser) expect(s string) {
	if !p.accept(s) {
		p.fail("expected %q, got %q", s, p.peek().text)
	}
}

func (p *parser) expr() Expr {
	if p.isIdent("forall") || p.isIdent("exists") {
		return p.quant()
	}
	return p.impl()
}

func (p *parser) typeExpr() TypeExpr {
	if p.accept("*") {
		e := p.typeExpr()
		return TypeExpr{Kind: "ptr", Elem: &e}
	}
	if p.accept("[") {
		p.expect("]")
		e := p.typeExpr()
		return TypeExpr{Kind: "slice", Elem: &e}
	}
	t := p.next()
	if t.kind != "ident" {
		p.fail("expected type, got %q", t.text)
	}
	if t.text == "map" && p.isOp("[") {
		p.expect("[")
		k := p.typeExpr()
		p.expect("]")
		v := p.typeExpr()
		return TypeExpr{Kind: "map", Key: &k, Elem: &v}
	}
	name := t.text
	if p.isOp(".") && p.toks[p.p+1].kind == "ident" {
		p.next()
		name += "." + p.next().text
	}
	te := TypeExpr{Kind: "name", Name: name}
	if p.isOp("[") && !(p.toks[p.p+1].kind == "op" && p.toks[p.p+1].text == "]") {
		p.next()
		for {
			te.Args = append(te.Args, p.typeExpr())
			if !p.accept(",") {
				break
			}
		}
		p.expect("]")
	}
	return te
}

func (p *parser) quant() Expr {
	q := p.next().text
	var vars []Binder
	for {
		var names []string
		for {
			t := p.next()
			if t.kind != "ident" {
				p.fail("expected binder name, got %q", t.text)
			}
			names = append(names, t.text)
			if !p.accept(",") {
				break
			}
		}
		// last "name" group is followed by a type
		ty := p.typeExpr()
		for _, n := range names {
			vars = append(vars, Binder{n, ty})
		}
		if p.accept(",") {
			continue
		}
		break
	}
	p.expect("::")
	var pats [][]Expr
	for p.isOp("{") {
		p.next()
		var pat []Expr
		for {
			pat = append(pat, p.impl())
			if !p.accept(",") {
				break
			}
		}
		p.expect("}")
		pats = append(pats, pat)
	}
	body := p.expr()
	return EQuant{Forall: q == "forall", Vars: vars, Body: body, Pats: pats}
}

func (p *parser) impl() Expr {
	l := p.or()
	if p.isOp("==>") || p.isOp("<==>") {
		op := p.next().text
		var r Expr
		if p.isIdent("forall") || p.isIdent("exists") {
			r = p.quant()
		} else {
			r = p.impl()
		}
		return EBin{op, l, r}
	}
	return l
}

func (p *parser) or() Expr {
	l := p.and()
	for p.isOp("||") {
		p.next()
		var r Expr
		if p.isIdent("forall") || p.isIdent("exists") {
			r = p.quant()
		} else {
			r = p.and()
		}
		l = EBin{"||", l, r}
	}
	return l
}

func (p *parser) and() Expr {
	l := p.cmp()
	for p.isOp("&&") {
		p.next()
		var r Expr
		if p.isIdent("forall") || p.isIdent("exists") {
			r = p.quant()
		} else {
			r = p.cmp()
		}
		l = EBin{"&&", l, r}
	}
	return l
}

func (p *parser) cmp() Expr {
	l := p.add()
	for _, op := range []string{"==", "!=", "<=", ">=", "<", ">"} {
		if p.isOp(op) {
			p.next()
			r := p.add()
			return EBin{op, l, r}
		}
	}
	return l
}

func (p *parser) add() Expr {
	l := p.mul()
	for p.isOp("+") || p.isOp("-") {
		op := p.next().text
		r := p.mul()
		l = EBin{op, l, r}
	}
	return l
}

func (p *parser) mul() Expr {
	l := p.unary()
	for p.isOp("*") || p.isOp("/") || p.isOp("%") {
		op := p.next().text
		r := p.unary()
		l = EBin{op, l, r}
	}
	return l
}

func (p *parser) unary() Expr {
	if p.isOp("!") || p.isOp("-") || p.isOp("*") {
		op := p.next().text
		return EUn{op, p.unary()}
	}
	return p.postfix()
}

func (p *parser) postfix() Expr {
	e := p.primary()
	for {
		switch {
		case p.isOp("."):
			p.next()
			t := p.next()
			if t.kind != "ident" {
				p.fail("expected field name after '.'")
			}
			e = ESel{e, t.text}
		case p.isOp("["):
			p.next()
			var lo, hi Expr
			if p.isOp("*") && p.toks[p.p+1].kind == "op" && p.toks[p.p+1].text == "]" {
				p.next()
				p.next()
				e = EIndex{e, EIdent{"*"}}
				continue
			}
			if p.isOp(":") {
				p.next()
				if !p.isOp("]") {
					hi = p.expr()
				}
				p.expect("]")
				e = ESlice{e, nil, hi}
				continue
			}
			lo = p.expr()
			if p.accept(":") {
				if !p.isOp("]") {
					hi = p.expr()
				}
				p.expect("]")
				e = ESlice{e, lo, hi}
				continue
			}
			p.expect("]")
			e = EIndex{e, lo}
		case p.isOp("("):
			p.next()
			var args []Expr
			if !p.isOp(")") {
				for {
					args = append(args, p.expr())
					if !p.accept(",") {
						break
					}
				}
			}
			p.expect(")")
			e = ECall{e, args}
		case p.isOp("{"):
			// composite literal Name{...}; only after a plain (possibly qualified) identifier
			var te TypeExpr
			switch x := e.(type) {
			case EIdent:
				te = TypeExpr{Kind: "name", Name: x.Name}
			case ESel:
				id, ok := x.X.(EIdent)
				if !ok {
					return e
				}
				te = TypeExpr{Kind: "name", Name: id.Name + "." + x.Name}
			default:
				return e
			}
			p.next()
			var args []Expr
			if !p.isOp("}") {
				for {
					args = append(args, p.expr())
					if !p.accept(",") {
						break
					}
				}
			}
			p.expect("}")
			e = EComposite{te, args}
		default:
			return e
		}
	}
}

func (p *parser) primary() Expr {
	t := p.next()
	switch t.kind {
	case "ident":
		switch t.text {
		case "true":
			return EBool{true}
		case "false":
			return EBool{false}
		}
		return EIdent{t.text}
	case "num":
		return ENum{t.text}
	case "str":
		return EStr{t.text}
	case "char":
		r, err := unquoteChar(t.text)
		if err != nil {
			p.fail("bad char literal %q", t.text)
		}
		return ENum{fmt.Sprint(r)}
	case "op":
		if t.text == "(" {
			e := p.expr()
			p.expect(")")
			return e
		}
		if t.text == "[" && p.isOp("]") {
			// a slice type used as an argument, e.g. elems([]uint32)
			p.next()
			te := p.typeExpr()
			return EIdent{"[]" + te.String()}
		}
	}
	p.fail("unexpected %q", t.text)
	return nil
}

func unquoteChar(s string) (rune, error) {
	if s == "" {
		return 0, fmt.Errorf("empty")
	}
	if s[0] != '\\' {
		r := []rune(s)
		if len(r) != 1 {
			return 0, fmt.Errorf("multi")
		}
		return r[0], nil
	}
	switch s {
	case `\n`:
		return '\n', nil
	case `\r`:
		return '\r', nil
	case `\t`:
		return '\t', nil
	case `\\`:
		return '\\', nil
	case `\'`:
		return '\'', nil
	case `\0`:
		return 0, nil
	}
	return 0, fmt.Errorf("unknown escape")
}
