package vc

import (
	"flag"
	"fmt"
	"go/types"
	"os"
	"sort"
	"strings"
	"time"

	"golang.org/x/tools/go/ssa"
)

// Zero-annotation safety sweep. A function without a contract is given the default
// safety contract: receiver and pointer parameters are non-nil, nothing is promised
// (no postcondition, no frame), calls to functions without contract are arbitrary code.
// What is generated are the panic obligations of the body: index and slice bounds, nil
// dereferences, type assertions, division, explicit panics and assert calls, and the
// preconditions of contracted callees. A function is listed for the sweep only when every
// one of these discharges on the unchanged tree; the check then demands that all of them
// (whatever their number after an edit) still discharge.

func defaultSafetyContract(fn *ssa.Function) *FuncContract {
	ct := &FuncContract{Name: fn.Name(), Skip: []string{"frame"}, Loops: map[int]*LoopSpec{}, Calls: map[string]*CallSpec{}, Sites: map[string]*SiteSpec{}}
	seen := map[string]bool{}
	for _, p := range fn.Params {
		if p.Name() == "_" || p.Name() == "" || seen[p.Name()] {
			continue
		}
		seen[p.Name()] = true
		if _, ok := p.Type().Underlying().(*types.Pointer); ok {
			src := "!isnil(" + p.Name() + ")"
			if e, err := ParseExpr(src); err == nil {
				ct.Requires = append(ct.Requires, &Clause{Kind: "requires", Text: src + " (default safety contract)", E: e})
			}
		}
	}
	return ct
}

func safetyKind(k string) bool {
	switch k {
	case "vacuity", "post", "frame", "hint":
		return false
	}
	return true
}

func cmdSweep(args []string) int {
	fs := flag.NewFlagSet("sweep", flag.ExitOnError)
	repo := fs.String("repo", "/repo", "repository root")
	pkgs := fs.String("pkgs", "./internal/...", "comma-separated package patterns")
	timeout := fs.Duration("timeout", 5*time.Second, "per-query timeout")
	verbose := fs.Bool("v", false, "list failed obligations")
	fs.Parse(args)
	v, err := Load(*repo, strings.Split(*pkgs, ","), nil)
	if err != nil {
		fmt.Fprintln(os.Stderr, err)
		return 2
	}
	cs := NewContractSet()
	if err := cs.LoadRepoContracts(*repo, modPath); err != nil {
		fmt.Fprintln(os.Stderr, "contracts:", err)
		return 2
	}
	if err := cs.LoadDir("/verif/contracts"); err != nil {
		fmt.Fprintln(os.Stderr, "contracts:", err)
		return 2
	}
	v.CS = cs
	dir, _ := os.MkdirTemp("", "loxvc")
	defer os.RemoveAll(dir)
	v.Solver = &Solver{Timeout: *timeout, Dir: dir}
	var keys []string
	for k := range v.funcsByKey {
		if strings.HasPrefix(k, modPath+"/") && !strings.Contains(k, "/zzverif") && !strings.Contains(k, "/examples/") {
			keys = append(keys, k)
		}
	}
	sort.Strings(keys)
	var results []*FuncResult
	for _, k := range keys {
		for _, fn := range v.funcsByKey[k] {
			if fn.Origin() != nil || len(fn.Blocks) == 0 {
				continue
			}
			if pos := fn.Pos(); pos.IsValid() {
				f := v.Prog.Fset.Position(pos).Filename
				if strings.HasSuffix(f, "_test.go") || strings.HasSuffix(f, ".gen.go") {
					continue
				}
			}
			if v.contractFor(fn) != nil {
				continue
			}
			results = append(results, v.VerifyFunc(fn, defaultSafetyContract(fn), strings.TrimPrefix(k, modPath+"/")))
		}
	}
	v.Discharge(results, 12)
	full, partial, errs := 0, 0, 0
	for _, r := range results {
		if r.Err != "" {
			errs++
			fmt.Printf("SKIP  %s: %s\n", r.Key, truncate(strings.ReplaceAll(r.Err, "\n", " "), 140))
			continue
		}
		ok, n, interesting := 0, 0, 0
		var failed []string
		for _, o := range r.Obls {
			if !safetyKind(o.Kind) {
				continue
			}
			n++
			if o.Kind != "ovf" {
				interesting++
			}
			if o.Discharged() {
				ok++
			} else {
				failed = append(failed, strings.TrimPrefix(o.Name, r.Key+"/"))
			}
		}
		switch {
		case n == 0:
			fmt.Printf("EMPTY %s\n", r.Key)
		case ok == n:
			full++
			fmt.Printf("FULL  %s: %d obligations (%d beyond overflow)\n", r.Key, n, interesting)
		default:
			partial++
			fmt.Printf("PART  %s: %d/%d", r.Key, ok, n)
			if *verbose {
				fmt.Printf("  failed: %s", strings.Join(failed, " "))
			}
			fmt.Println()
		}
	}
	fmt.Printf("sweep: %d functions fully safe, %d partly, %d out of subset\n", full, partial, errs)
	return 0
}
