package vc

import (
	"encoding/json"
	"fmt"
	"go/ast"
	goparser "go/parser"
	"go/token"
	"go/types"
	"os"
	"path/filepath"
	"regexp"
	"sort"
	"strings"

	"golang.org/x/tools/go/ssa"
)

// Structural obligations: facts decided from the SSA / syntax of the current
// tree without a solver. They are reported with back end "structural".

func (r *checkRun) staticCheck(name string) ([]*StaticResult, error) {
	switch name {
	case "map-ranges":
		return r.mapRanges()
	case "gen-globals":
		return r.genGlobals()
	}
	return nil, fmt.Errorf("unknown static check %s", name)
}

type mapRangeAllow struct {
	Func   string `json:"func"`
	N      int    `json:"n"`
	Reason string `json:"reason"`
}

// mapRanges: every `range` over a built-in map in non-test code must either be a
// collect-then-sort loop (the body only appends the key or the value to a slice that
// is sorted immediately after the loop) or be listed with a justification in
// /verif/maprange_allow.json. A new, unlisted map range is a failed obligation.
func (r *checkRun) mapRanges() ([]*StaticResult, error) {
	v, err := Load(r.repo, []string{"./cmd/...", "./internal/..."}, nil)
	if err != nil {
		return nil, err
	}
	var allow []mapRangeAllow
	if data, err := os.ReadFile("/verif/maprange_allow.json"); err == nil {
		if err := json.Unmarshal(data, &allow); err != nil {
			return nil, fmt.Errorf("maprange_allow.json: %v", err)
		}
	}
	allowed := func(fn string, n int) (string, bool) {
		for _, a := range allow {
			if a.Func == fn && a.N == n {
				return a.Reason, true
			}
		}
		return "", false
	}
	var out []*StaticResult
	var keys []string
	for k := range v.funcsByKey {
		keys = append(keys, k)
	}
	sort.Strings(keys)
	seen := map[*ssa.Function]bool{}
	for _, k := range keys {
		if !strings.HasPrefix(k, modPath+"/") || strings.Contains(k, "/zzverif") || strings.Contains(k, "/examples/") {
			continue
		}
		for _, fn := range v.funcsByKey[k] {
			if seen[fn] || fn.Origin() != nil && seen[fn.Origin()] {
				continue
			}
			seen[fn] = true
			if pos := fn.Pos(); pos.IsValid() {
				if f := v.Prog.Fset.Position(pos).Filename; strings.HasSuffix(f, "_test.go") || strings.HasSuffix(f, ".gen.go") {
					continue
				}
			}
			n := 0
			for _, b := range fn.Blocks {
				for _, ins := range b.Instrs {
					rg, ok := ins.(*ssa.Range)
					if !ok {
						continue
					}
					if _, isMap := rg.X.Type().Underlying().(*types.Map); !isMap {
						continue
					}
					short := strings.TrimPrefix(k, modPath+"/")
					name := fmt.Sprintf("maprange/%s#%d/order-independent", short, n)
					pos := v.Prog.Fset.Position(rg.Pos())
					where := fmt.Sprintf("%s:%d", relFile(pos.Filename), pos.Line)
					if why, ok := collectThenSort(rg); ok {
						out = append(out, &StaticResult{Name: name, OK: true, Detail: where + ": " + why})
					} else if reason, ok := allowed(short, n); ok {
						out = append(out, &StaticResult{Name: name, OK: true, Detail: where + ": listed: " + reason})
					} else {
						out = append(out, &StaticResult{Name: name, OK: false, Detail: where + ": iteration over a built-in map whose order can reach the output: the loop is not a collect-then-sort loop and is not listed in maprange_allow.json (" + why + ")"})
					}
					n++
				}
			}
		}
	}
	if len(out) == 0 {
		return nil, fmt.Errorf("no map ranges found: the scan is vacuous")
	}
	return out, nil
}

// collectThenSort recognises
//
//	for k[, v] := range m { s = append(s, k|v) }
//	sort...(s, ...)
//
// in naive-form SSA.
func collectThenSort(rg *ssa.Range) (string, bool) {
	// find the Next instruction and the loop blocks
	var next *ssa.Next
	for _, ref := range *rg.Referrers() {
		if n, ok := ref.(*ssa.Next); ok {
			next = n
		}
	}
	if next == nil {
		return "no Next", false
	}
	head := next.Block()
	if len(head.Succs) != 2 {
		return "unexpected loop shape", false
	}
	body, done := head.Succs[0], head.Succs[1]
	// the body must come back to the head directly
	if len(body.Succs) != 1 || body.Succs[0] != head {
		return "loop body branches", false
	}
	var target *ssa.Alloc // the slice variable appended to
	appends := 0
	for _, ins := range body.Instrs {
		switch x := ins.(type) {
		case *ssa.Extract, *ssa.Alloc, *ssa.UnOp, *ssa.IndexAddr, *ssa.Slice, *ssa.Jump, *ssa.DebugRef, *ssa.FieldAddr, *ssa.MakeInterface, *ssa.ChangeType:
		case *ssa.Store:
			if a, ok := x.Addr.(*ssa.Alloc); ok {
				if _, isSl := a.Type().Underlying().(*types.Pointer).Elem().Underlying().(*types.Slice); isSl {
					if c, ok := x.Val.(*ssa.Call); ok && isBuiltin(c, "append") {
						if target != nil && target != a {
							return "appends to two slices", false
						}
						target = a
					}
				}
			}
		case *ssa.Call:
			if isBuiltin(x, "append") {
				appends++
				continue
			}
			return "loop body calls " + x.Call.Value.Name(), false
		default:
			return fmt.Sprintf("loop body has %T", ins), false
		}
	}
	if target == nil || appends != 1 {
		// the slice may be a field (dfaState.NFAStates = append(...)): accept a store through FieldAddr of an append
		fieldTarget := false
		for _, ins := range body.Instrs {
			if st, ok := ins.(*ssa.Store); ok {
				if _, ok := st.Addr.(*ssa.FieldAddr); ok {
					if c, ok := st.Val.(*ssa.Call); ok && isBuiltin(c, "append") {
						fieldTarget = true
					}
				}
			}
		}
		if !fieldTarget || appends != 1 {
			return "the body is not a single append", false
		}
	}
	// the first call after the loop must be a sort of that slice
	for _, ins := range done.Instrs {
		c, ok := ins.(*ssa.Call)
		if !ok {
			continue
		}
		if isBuiltin(c, "len") || isBuiltin(c, "cap") {
			continue
		}
		callee := c.Call.StaticCallee()
		if callee == nil {
			return "the loop is not followed by a sort", false
		}
		full := callee.String()
		if o := callee.Origin(); o != nil {
			full = o.String()
		}
		switch {
		case strings.HasPrefix(full, "slices.SortFunc"), strings.HasPrefix(full, "slices.SortStableFunc"), full == "sort.Slice", full == "sort.SliceStable":
			// the comparator must be the comparison of one key of the two elements: that is
			// a strict weak order, total when the keys are unique (names, ids, indices)
			if len(c.Call.Args) < 2 {
				return "sort without comparator argument", false
			}
			why, ok := keyComparator(c.Call.Args[1])
			if !ok {
				return "the comparator of " + full + " is not the comparison of one key of its two arguments (" + why + ")", false
			}
			return "collect-then-sort (" + full + " by " + why + "); assumes that key is unique among the collected elements", true
		case strings.HasPrefix(full, "slices.Sort"), full == "sort.Strings", full == "sort.Ints":
			return "collect-then-sort (" + full + ", natural order)", true
		}
		return "the loop is followed by " + full + ", not by a sort", false
	}
	return "the loop is not followed by a sort", false
}

func isBuiltin(c *ssa.Call, name string) bool {
	b, ok := c.Call.Value.(*ssa.Builtin)
	return ok && b.Name() == name
}

var tableVar = regexp.MustCompile(`^(_rules|_termCounts|_actions|_goto|_lexerModes|_lexerMode\d+)$`)

// genGlobals: the generated files declare no package-level variable other than the
// constant tables (C18: all mutable state lives in instances). The frame obligations of
// the runtime functions then show that the tables themselves are never written.
func (r *checkRun) genGlobals() ([]*StaticResult, error) {
	var out []*StaticResult
	for _, fx := range []string{"plain"} {
		dir, err := r.renderFixture(fx)
		if err != nil {
			return nil, err
		}
		fset := token.NewFileSet()
		for _, gf := range []string{"base.gen.go", "lexer.gen.go", "parser.gen.go"} {
			f, err := parserParseFile(fset, filepath.Join(dir, gf))
			if err != nil {
				return nil, err
			}
			var bad []string
			n := 0
			for _, d := range f.Decls {
				gd, ok := d.(*ast.GenDecl)
				if !ok || gd.Tok != token.VAR {
					continue
				}
				for _, sp := range gd.Specs {
					for _, id := range sp.(*ast.ValueSpec).Names {
						n++
						if !tableVar.MatchString(id.Name) {
							bad = append(bad, id.Name)
						}
					}
				}
			}
			name := fmt.Sprintf("gen-globals/%s@%s/only-constant-tables", gf, fx)
			if len(bad) > 0 {
				out = append(out, &StaticResult{Name: name, OK: false, Detail: "package-level variables other than the emitted tables: " + strings.Join(bad, ", ")})
			} else {
				out = append(out, &StaticResult{Name: name, OK: true, Detail: fmt.Sprintf("%d package-level variables, all of them emitted tables", n)})
			}
		}
	}
	return out, nil
}

func parserParseFile(fset *token.FileSet, path string) (*ast.File, error) {
	return goparser.ParseFile(fset, path, nil, 0)
}

// keyComparator recognises a comparator that only compares one key of its arguments:
//
//	func(a, b T) int    { return cmp.Compare(key(a), key(b)) }
//	func(i, j int) bool { return key(s[i]) < key(s[j]) }
//
// where key is the same chain of field selections, loads, indexing of one captured slice
// and calls on both sides.
func keyComparator(v ssa.Value) (string, bool) {
	var fn *ssa.Function
	switch x := v.(type) {
	case *ssa.MakeClosure:
		fn, _ = x.Fn.(*ssa.Function)
	case *ssa.Function:
		fn = x
	}
	if fn == nil {
		return "comparator is not a function literal", false
	}
	if len(fn.Params) != 2 {
		return "comparator does not take two arguments", false
	}
	var ret *ssa.Return
	nret := 0
	for _, b := range fn.Blocks {
		for _, ins := range b.Instrs {
			if r, ok := ins.(*ssa.Return); ok {
				ret = r
				nret++
			}
			if _, ok := ins.(*ssa.If); ok {
				return "comparator branches", false
			}
		}
	}
	if nret != 1 || len(ret.Results) != 1 {
		return "comparator has several return points", false
	}
	var x, y ssa.Value
	switch r := throughLocals(ret.Results[0]).(type) {
	case *ssa.Call:
		callee := r.Call.StaticCallee()
		if callee == nil || len(r.Call.Args) != 2 {
			return "comparator returns an unknown call", false
		}
		name := callee.String()
		if o := callee.Origin(); o != nil {
			name = o.String()
		}
		if name != "cmp.Compare" && name != "strings.Compare" {
			return "comparator returns " + name, false
		}
		x, y = r.Call.Args[0], r.Call.Args[1]
	case *ssa.BinOp:
		if r.Op != token.LSS && r.Op != token.GTR {
			return "comparator is not < or >", false
		}
		x, y = r.X, r.Y
	default:
		return "comparator does not return a comparison", false
	}
	sx, sy := keyShape(x, fn.Params[0], 0), keyShape(y, fn.Params[1], 0)
	if sx == "" || sx != sy {
		return fmt.Sprintf("the two sides differ: %q vs %q", sx, sy), false
	}
	return "key " + sx, true
}

// keyShape renders the expression tree of v with the parameter p written as "_".
func keyShape(v ssa.Value, p *ssa.Parameter, depth int) string {
	if depth > 8 {
		return ""
	}
	switch x := v.(type) {
	case *ssa.Parameter:
		if x == p {
			return "_"
		}
		return ""
	case *ssa.UnOp:
		if x.Op != token.MUL {
			return ""
		}
		if a, ok := x.X.(*ssa.Alloc); ok {
			// naive form: parameters are spilled to locals; find the stored value
			for _, ref := range *a.Referrers() {
				if st, ok := ref.(*ssa.Store); ok && st.Addr == a {
					return keyShape(st.Val, p, depth+1)
				}
			}
			return ""
		}
		if fv, ok := x.X.(*ssa.FreeVar); ok {
			return "$" + fv.Name()
		}
		in := keyShape(x.X, p, depth+1)
		if in == "" {
			return ""
		}
		return "*" + in
	case *ssa.FieldAddr:
		in := keyShape(x.X, p, depth+1)
		if in == "" {
			return ""
		}
		return fmt.Sprintf("%s.f%d", in, x.Field)
	case *ssa.Field:
		in := keyShape(x.X, p, depth+1)
		if in == "" {
			return ""
		}
		return fmt.Sprintf("%s.f%d", in, x.Field)
	case *ssa.IndexAddr:
		b, i := keyShape(x.X, p, depth+1), keyShape(x.Index, p, depth+1)
		if b == "" || i == "" {
			return ""
		}
		return b + "[" + i + "]"
	case *ssa.Call:
		name := ""
		var args []ssa.Value
		if x.Call.IsInvoke() {
			name = x.Call.Method.Name()
			args = append([]ssa.Value{x.Call.Value}, x.Call.Args...)
		} else if callee := x.Call.StaticCallee(); callee != nil {
			name = callee.Name()
			args = x.Call.Args
		} else {
			return ""
		}
		var parts []string
		for _, a := range args {
			s := keyShape(a, p, depth+1)
			if s == "" {
				return ""
			}
			parts = append(parts, s)
		}
		return name + "(" + strings.Join(parts, ",") + ")"
	case *ssa.Convert:
		return keyShape(x.X, p, depth+1)
	case *ssa.ChangeType:
		return keyShape(x.X, p, depth+1)
	case *ssa.MakeInterface:
		return keyShape(x.X, p, depth+1)
	case *ssa.Const:
		return x.Value.String()
	}
	return ""
}

// throughLocals follows loads of locals that are stored exactly once (naive-form SSA
// spills every value to a local).
func throughLocals(v ssa.Value) ssa.Value {
	for depth := 0; depth < 6; depth++ {
		u, ok := v.(*ssa.UnOp)
		if !ok || u.Op != token.MUL {
			return v
		}
		a, ok := u.X.(*ssa.Alloc)
		if !ok {
			return v
		}
		var stored ssa.Value
		n := 0
		for _, ref := range *a.Referrers() {
			if st, ok := ref.(*ssa.Store); ok && st.Addr == a {
				stored = st.Val
				n++
			}
		}
		if n != 1 {
			return v
		}
		v = stored
	}
	return v
}
