package vc

import (
	"encoding/json"
	"fmt"
	"go/ast"
	goparser "go/parser"
	"go/token"
	"go/types"
	"os"
	"path/filepath"
	"regexp"
	"sort"
	"strings"

	"golang.org/x/tools/go/ssa"
)

// Structural obligations: facts decided from the SSA / syntax of the current
// tree without a solver. They are reported with back end "structural".

func (r *checkRun) staticCheck(name string) ([]*StaticResult, error) {
	switch name {
	case "map-ranges":
		return r.mapRanges()
	case "gen-globals":
		return r.genGlobals()
	}
	return nil, fmt.Errorf("unknown static check %s", name)
}

type mapRangeAllow struct {
	Func   string `json:"func"`
	N      int    `json:"n"`
	Reason string `json:"reason"`
}

// mapRanges: every `range` over a built-in map in non-test code must either be a
// collect-then-sort loop (the body only appends the key or the value to a slice that
// is sorted immediately after the loop) or be listed with a justification in
// /verif/maprange_allow.json. A new, unlisted map range is a failed obligation.
func (r *checkRun) mapRanges() ([]*StaticResult, error) {
	v, err := Load(r.repo, []string{"./cmd/...", "./internal/..."}, nil)
	if err != nil {
		return nil, err
	}
	var allow []mapRangeAllow
	if data, err := os.ReadFile("/verif/maprange_allow.json"); err == nil {
		if err := json.Unmarshal(data, &allow); err != nil {
			return nil, fmt.Errorf("maprange_allow.json: %v", err)
		}
	}
	allowed := func(fn string, n int) (string, bool) {
		for _, a := range allow {
			if a.Func == fn && a.N == n {
				return a.Reason, true
			}
		}
		return "", false
	}
	var out []*StaticResult
	var keys []string
	for k := range v.funcsByKey {
		keys = append(keys, k)
	}
	sort.Strings(keys)
	seen := map[*ssa.Function]bool{}
	for _, k := range keys {
		if !strings.HasPrefix(k, modPath+"/") || strings.Contains(k, "/zzverif") || strings.Contains(k, "/examples/") {
			continue
		}
		for _, fn := range v.funcsByKey[k] {
			if seen[fn] || fn.Origin() != nil && seen[fn.Origin()] {
				continue
			}
			seen[fn] = true
			if pos := fn.Pos(); pos.IsValid() {
				if f := v.Prog.Fset.Position(pos).Filename; strings.HasSuffix(f, "_test.go") || strings.HasSuffix(f, ".gen.go") {
					continue
				}
			}
			n := 0
			for _, b := range fn.Blocks {
				for _, ins := range b.Instrs {
					rg, ok := ins.(*ssa.Range)
					if !ok {
						continue
					}
					if _, isMap := rg.X.Type().Underlying().(*types.Map); !isMap {
						continue
					}
					short := strings.TrimPrefix(k, modPath+"/")
					name := fmt.Sprintf("maprange/%s#%d/order-independent", short, n)
					pos := v.Prog.Fset.Position(rg.Pos())
					where := fmt.Sprintf("%s:%d", relFile(pos.Filename), pos.Line)
					if why, ok := collectThenSort(rg); ok {
						out = append(out, &StaticResult{Name: name, OK: true, Detail: where + ": " + why})
					} else if reason, ok := allowed(short, n); ok {
						out = append(out, &StaticResult{Name: name, OK: true, Detail: where + ": listed: " + reason})
					} else {
						out = append(out, &StaticResult{Name: name, OK: false, Detail: where + ": iteration over a built-in map whose order can reach the output: the loop is not a collect-then-sort loop and is not listed in maprange_allow.json (" + why + ")"})
					}
					n++
				}
			}
		}
	}
	if len(out) == 0 {
		return nil, fmt.Errorf("no map ranges found: the scan is vacuous")
	}
	return out, nil
}

// collectThenSort recognises
//
//	for k[, v] := range m { s = append(s, k|v) }
//	sort...(s, ...)
//
// in naive-form SSA.
func collectThenSort(rg *ssa.Range) (string, bool) {
	// find the Next instruction and the loop blocks
	var next *ssa.Next
	for _, ref := range *rg.Referrers() {
		if n, ok := ref.(*ssa.Next); ok {
			next = n
		}
	}
	if next == nil {
		return "no Next", false
	}
	head := next.Block()
	if len(head.Succs) != 2 {
		return "unexpected loop shape", false
	}
	body, done := head.Succs[0], head.Succs[1]
	// the body must come back to the head directly
	if len(body.Succs) != 1 || body.Succs[0] != head {
		return "loop body branches", false
	}
	var target *ssa.Alloc // the slice variable appended to
	appends := 0
	for _, ins := range body.Instrs {
		switch x := ins.(type) {
		case *ssa.Extract, *ssa.Alloc, *ssa.UnOp, *ssa.IndexAddr, *ssa.Slice, *ssa.Jump, *ssa.DebugRef, *ssa.FieldAddr, *ssa.MakeInterface, *ssa.ChangeType:
		case *ssa.Store:
			if a, ok := x.Addr.(*ssa.Alloc); ok {
				if _, isSl := a.Type().Underlying().(*types.Pointer).Elem().Underlying().(*types.Slice); isSl {
					if c, ok := x.Val.(*ssa.Call); ok && isBuiltin(c, "append") {
						if target != nil && target != a {
							return "appends to two slices", false
						}
						target = a
					}
				}
			}
		case *ssa.Call:
			if isBuiltin(x, "append") {
				appends++
				continue
			}
			return "loop body calls " + x.Call.Value.Name(), false
		default:
			return fmt.Sprintf("loop body has %T", ins), false
		}
	}
	if target == nil || appends != 1 {
		// the slice may be a field (dfaState.NFAStates = append(...)): accept a store through FieldAddr of an append
		fieldTarget := false
		for _, ins := range body.Instrs {
			if st, ok := ins.(*ssa.Store); ok {
				if _, ok := st.Addr.(*ssa.FieldAddr); ok {
					if c, ok := st.Val.(*ssa.Call); ok && isBuiltin(c, "append") {
						fieldTarget = true
					}
				}
			}
		}
		if !fieldTarget || appends != 1 {
			return "the body is not a single append", false
		}
	}
	// the first call after the loop must be a sort of that slice
	for _, ins := range done.Instrs {
		c, ok := ins.(*ssa.Call)
		if !ok {
			continue
		}
		if isBuiltin(c, "len") || isBuiltin(c, "cap") {
			continue
		}
		callee := c.Call.StaticCallee()
		if callee == nil {
			return "the loop is not followed by a sort", false
		}
		full := callee.String()
		if o := callee.Origin(); o != nil {
			full = o.String()
		}
		switch {
		case strings.HasPrefix(full, "slices.SortFunc"), strings.HasPrefix(full, "slices.Sort"), full == "sort.Slice", full == "sort.Strings", full == "sort.Ints", strings.HasPrefix(full, "slices.SortStableFunc"), full == "sort.SliceStable":
			return "collect-then-sort (" + full + "); assumes the comparator is a strict total order on the collected elements", true
		}
		return "the loop is followed by " + full + ", not by a sort", false
	}
	return "the loop is not followed by a sort", false
}

func isBuiltin(c *ssa.Call, name string) bool {
	b, ok := c.Call.Value.(*ssa.Builtin)
	return ok && b.Name() == name
}

var tableVar = regexp.MustCompile(`^(_rules|_termCounts|_actions|_goto|_lexerModes|_lexerMode\d+)$`)

// genGlobals: the generated files declare no package-level variable other than the
// constant tables (C18: all mutable state lives in instances). The frame obligations of
// the runtime functions then show that the tables themselves are never written.
func (r *checkRun) genGlobals() ([]*StaticResult, error) {
	var out []*StaticResult
	for _, fx := range []string{"plain"} {
		dir, err := r.renderFixture(fx)
		if err != nil {
			return nil, err
		}
		fset := token.NewFileSet()
		for _, gf := range []string{"base.gen.go", "lexer.gen.go", "parser.gen.go"} {
			f, err := parserParseFile(fset, filepath.Join(dir, gf))
			if err != nil {
				return nil, err
			}
			var bad []string
			n := 0
			for _, d := range f.Decls {
				gd, ok := d.(*ast.GenDecl)
				if !ok || gd.Tok != token.VAR {
					continue
				}
				for _, sp := range gd.Specs {
					for _, id := range sp.(*ast.ValueSpec).Names {
						n++
						if !tableVar.MatchString(id.Name) {
							bad = append(bad, id.Name)
						}
					}
				}
			}
			name := fmt.Sprintf("gen-globals/%s@%s/only-constant-tables", gf, fx)
			if len(bad) > 0 {
				out = append(out, &StaticResult{Name: name, OK: false, Detail: "package-level variables other than the emitted tables: " + strings.Join(bad, ", ")})
			} else {
				out = append(out, &StaticResult{Name: name, OK: true, Detail: fmt.Sprintf("%d package-level variables, all of them emitted tables", n)})
			}
		}
	}
	return out, nil
}

func parserParseFile(fset *token.FileSet, path string) (*ast.File, error) {
	return goparser.ParseFile(fset, path, nil, 0)
}
