package vc

import (
	"encoding/json"
	"flag"
	"fmt"
	"os"
	"os/exec"
	"path/filepath"
	"sort"
	"strconv"
	"strings"
	"time"
)

// Plan: what each property's check consists of (/verif/plan.json).
type PropPlan struct {
	Level       string        `json:"level"` // proof | other
	Packages    []string      `json:"packages"`
	Functions   []string      `json:"functions"` // contract keys relative to the module path
	Sweep       []string      `json:"sweep,omitempty"` // functions checked against the default safety contract (no annotations)
	Runtime     []RuntimePlan `json:"runtime,omitempty"`
	Bounded     []BoundedPlan `json:"bounded,omitempty"`
	Static      []string      `json:"static,omitempty"` // built-in structural obligations (frames, map ranges, ...)
	Explanation string        `json:"explanation"`
	Assumptions []string      `json:"assumptions"`
	Trusted     []string      `json:"trusted_base"`
}

type RuntimePlan struct {
	Fixture   string   `json:"fixture"`
	Functions []string `json:"functions"`
	Tier      string   `json:"tier,omitempty"` // "thorough": only in the thorough tier
}

type BoundedPlan struct {
	Name   string `json:"name"`
	Test   string `json:"test"`  // go test -run pattern in the harness
	Bound  string `json:"bound"` // human-readable statement of the bound
	Quick  string `json:"quick_args,omitempty"`
	Thor   string `json:"thorough_args,omitempty"`
	Pkg    string `json:"pkg,omitempty"`
}

type KnownFinding struct {
	Property   string `json:"property"`
	Obligation string `json:"obligation"`
	Witness    string `json:"witness"`
	Status     string `json:"status"` // open | fixed:<commit>
	Note       string `json:"note,omitempty"`
}

const modPath = "github.com/dcaiafa/lox"

func loadPlan() (map[string]*PropPlan, error) {
	data, err := os.ReadFile("/verif/plan.json")
	if err != nil {
		return nil, err
	}
	m := map[string]*PropPlan{}
	if err := json.Unmarshal(data, &m); err != nil {
		return nil, fmt.Errorf("plan.json: %v", err)
	}
	return m, nil
}

func loadKnown() []KnownFinding {
	data, err := os.ReadFile("/verif/known_findings.json")
	if err != nil {
		return nil
	}
	var ks []KnownFinding
	if err := json.Unmarshal(data, &ks); err != nil {
		fmt.Fprintln(os.Stderr, "known_findings.json:", err)
	}
	return ks
}

type violation struct {
	Obligation string `json:"obligation"`
	Reason     string `json:"reason"`
	Replay     string `json:"replay"`
	Reproduced bool   `json:"reproduced"`
}

// replayRoot is where replay files of violations are written.
var replayRoot = "/verif/evidence/replay"

func cmdCheck(args []string) int {
	fs := flag.NewFlagSet("check", flag.ExitOnError)
	tier := fs.String("tier", "quick", "quick|thorough")
	repo := fs.String("repo", envOr("LOXVC_REPO", "/repo"), "repository root")
	verbose := fs.Bool("v", false, "verbose")
	noEvidence := fs.Bool("no-evidence", false, "do not write the evidence file")
	fs.Parse(args)
	if *noEvidence {
		// runs against changed trees (seeded changes, refactorings) keep their replay files out of the evidence
		replayRoot = "/verif/scratch/replay"
	}
	if fs.NArg() < 1 {
		fmt.Fprintln(os.Stderr, "usage: loxvc check [-tier quick|thorough] Cxx")
		return 2
	}
	id := fs.Arg(0)
	if t := os.Getenv("VERIF_TIER"); t == "quick" || t == "thorough" {
		*tier = t
	}
	seed := int64(1)
	if s := os.Getenv("VERIF_SEED"); s != "" {
		if v, err := strconv.ParseInt(s, 10, 64); err == nil {
			seed = v
		}
	}
	start := time.Now()
	plans, err := loadPlan()
	if err != nil {
		fmt.Fprintln(os.Stderr, err)
		return 2
	}
	plan := plans[id]
	if plan == nil {
		fmt.Fprintf(os.Stderr, "no plan for %s\n", id)
		return 2
	}
	timeout := 20 * time.Second
	if *tier == "thorough" {
		timeout = 90 * time.Second
	}
	// solver budgets are wall-clock: stretch them when the machine is busy
	if f := loadFactor(); f > 1 {
		timeout = time.Duration(float64(timeout) * f)
	}
	scratch, _ := os.MkdirTemp("", "loxvc-"+id+"-")
	defer os.RemoveAll(scratch)

	var results []*FuncResult
	var violations []violation
	var notes []string
	assumptions := append([]string{}, plan.Assumptions...)
	trusted := append([]string{}, plan.Trusted...)

	run := &checkRun{id: id, tier: *tier, repo: *repo, scratch: scratch, timeout: timeout, verbose: *verbose, seed: seed}

	// --- P tier: functions of /repo under contract
	if len(plan.Functions)+len(plan.Sweep) > 0 {
		rs, err := run.verifyRepoFunctions(plan.Packages, plan.Functions, plan.Sweep)
		if err != nil {
			fmt.Fprintln(os.Stderr, "error:", err)
			violations = append(violations, violation{Obligation: id + "/load", Reason: "the packages under contract could not be loaded: " + err.Error()})
		}
		results = append(results, rs...)
	}
	// --- P/inst tier: rendered runtime
	for _, rp := range plan.Runtime {
		if rp.Tier == "thorough" && *tier != "thorough" {
			continue
		}
		rs, err := run.verifyRuntime(rp)
		if err != nil {
			fmt.Fprintln(os.Stderr, "error:", err)
			violations = append(violations, violation{Obligation: id + "/render/" + rp.Fixture, Reason: "fixture could not be rendered or loaded: " + err.Error()})
		}
		results = append(results, rs...)
	}
	// --- structural obligations
	var static []*StaticResult
	for _, s := range plan.Static {
		sr, err := run.staticCheck(s)
		if err != nil {
			violations = append(violations, violation{Obligation: id + "/static/" + s, Reason: err.Error()})
			continue
		}
		static = append(static, sr...)
	}
	// --- bounded stand-ins
	var bounded []map[string]any
	for _, bp := range plan.Bounded {
		br, v := run.runBounded(bp)
		bounded = append(bounded, br)
		violations = append(violations, v...)
	}

	// collect
	known := loadKnown()
	nObl, nDis := 0, 0
	byBackend := map[string]int{}
	solverTime := 0.0
	var funcs []map[string]any
	var slow []string
	var unbound []string
	var samples []any
	var undecided []string
	for _, r := range results {
		fe := map[string]any{"name": r.Key, "ssa": r.Func, "tier": "P"}
		if r.Err != "" {
			if *verbose {
				fmt.Printf("  ERROR %s: %s\n", r.Key, r.Err)
			}
			fe["error"] = r.Err
			// The contract no longer binds to the code (a local was renamed, the function moved
			// or uses a construct outside the modelled subset): nothing can be concluded from
			// it either way. This is reported as undecided, never as a violation; the
			// property's other obligations and bounded stand-ins still run.
			unbound = append(unbound, r.Key+": "+truncate(r.Err, 300))
			fmt.Printf("UNDECIDED function=%s reason=%s\n", r.Key, strings.ReplaceAll(truncate(r.Err, 200), "\n", " "))
			funcs = append(funcs, fe)
			continue
		}
		d := 0
		for _, o := range r.Obls {
			nObl++
			solverTime += o.Res.Time
			if o.Discharged() {
				nDis++
				d++
				byBackend[o.Res.Backend]++
				if len(samples) < 6 && o.Kind != "vacuity" && (o.Kind == "post" || o.Kind == "inv") {
					samples = append(samples, map[string]any{"obligation": o.Name, "clause": o.Text, "verdict": "unsat (discharged)", "backend": o.Res.Backend, "time_s": round2(o.Res.Time), "smt_bytes": len(o.Query())})
				}
				continue
			}
			reason := fmt.Sprintf("%s: solver answered %s (%s)", o.Text, o.Res.Status, strings.Join(o.Res.Tried, " "))
			if *verbose {
				fmt.Printf("  FAIL %s: %s -- %s\n", o.Name, o.Res.Status, truncate(o.Text, 120))
			}
			if o.Kind == "vacuity" {
				reason = "the precondition of the function is contradictory (vacuous proof)"
			}
			v := violation{Obligation: o.Name, Reason: reason}
			if rec, ok := run.tryReplay(o); rec != nil {
				v.Replay = run.writeReplayWith(o, rec, ok)
				v.Reproduced = ok
			} else {
				v.Replay = run.writeReplay(o)
			}
			violations = append(violations, v)
		}
		for _, o := range r.Obls {
			if o.Res.Time > 4 && o.Kind != "vacuity" {
				slow = append(slow, fmt.Sprintf("%s %.1fs %s", o.Name, o.Res.Time, o.Res.Backend))
			}
		}
		fe["obligations"] = len(r.Obls)
		fe["discharged"] = d
		if len(r.Skipped) > 0 {
			fe["unchecked_classes"] = r.Skipped
			assumptions = append(assumptions, fmt.Sprintf("%s: obligation classes not generated: %s", r.Key, strings.Join(r.Skipped, ",")))
		}
		funcs = append(funcs, fe)
		for _, a := range r.Assumptions {
			assumptions = appendUnique(assumptions, a)
		}
	}
	for _, sr := range static {
		nObl++
		if sr.OK {
			nDis++
			byBackend["structural"]++
		} else {
			violations = append(violations, violation{Obligation: sr.Name, Reason: sr.Detail, Replay: run.writeReplayText(sr.Name, sr.Detail)})
		}
		if len(samples) < 8 {
			samples = append(samples, map[string]any{"obligation": sr.Name, "verdict": map[bool]string{true: "holds", false: "FAILS"}[sr.OK], "detail": truncate(sr.Detail, 300)})
		}
	}

	// known findings filter
	exit := 0
	nViol := 0
	var lines []string
	for _, v := range violations {
		matched := false
		for _, k := range known {
			if k.Property == id && k.Status == "open" && k.Obligation == v.Obligation {
				lines = append(lines, fmt.Sprintf("KNOWN-FINDING: property=%s %s %s", id, k.Obligation, k.Witness))
				matched = true
				break
			}
		}
		if matched {
			continue
		}
		nViol++
		exit = 1
		rp := v.Replay
		if rp == "" {
			rp = run.writeReplayText(v.Obligation, v.Reason)
		}
		suffix := ""
		if !v.Reproduced {
			suffix = " no-failing-input-found"
		}
		lines = append(lines, fmt.Sprintf("VIOLATION property=%s replay=%s obligation=%s%s", id, rp, v.Obligation, suffix))
		undecided = append(undecided, v.Obligation)
	}
	// known findings that no longer fail are simply not printed.
	for _, l := range lines {
		fmt.Println(l)
	}
	sort.Strings(assumptions)
	wall := time.Since(start).Seconds()
	if *verbose {
		for _, sl := range slow {
			fmt.Println("  SLOW", sl)
		}
	}
	fmt.Printf("%s %s: %d obligations, %d discharged, %d bounded checks, %d violations, %.1fs\n", id, *tier, nObl, nDis, len(bounded), nViol, wall)
	_ = notes
	if !*noEvidence {
		ev := map[string]any{
			"property_id": id,
			"tier":        *tier,
			"seed":        seed,
			"level":       plan.Level,
			"coverage": map[string]any{
				"obligations":               nObl,
				"discharged":                nDis,
				"checker_cmd":               fmt.Sprintf("/verif/check %s %s  (loxvc: go/ssa naive-form VC generator; z3 5.1.0, z3 4.8.12, cvc5 1.0.3 raced per obligation, timeout %s)", id, *tier, timeout),
				"trusted_base":              trusted,
				"explanation":               plan.Explanation,
				"functions_under_contract":  funcs,
				"by_backend":                byBackend,
				"solver_time_s":             round2(solverTime),
				"bounded":                   bounded,
				"samples":                   samples,
				"undischarged":              undecided,
				"slow_obligations_over_4s":  slow,
				"functions_undecided":       unbound,
				"integer_model":             "Go integers are mathematical Int; every signed + - * carries a no-overflow obligation, unsigned arithmetic wraps explicitly, conversions are exact (wrap-around)",
			},
			"assumptions": assumptions,
			"wall_s":      round2(wall),
			"violations":  nViol,
		}
		if len(samples) == 0 {
			ev["coverage"].(map[string]any)["samples"] = []any{"(no P-tier obligations in this property; see bounded)"}
		}
		if plan.Level != "proof" {
			// generic fallback keys are welcome too
			cases, nontriv := 0, 0
			for _, b := range bounded {
				if c, ok := b["cases"].(int); ok {
					cases += c
				}
				if c, ok := b["nontrivial"].(int); ok {
					nontriv += c
				}
			}
			ev["coverage"].(map[string]any)["evaluations"] = cases + nObl
			ev["coverage"].(map[string]any)["distinct_nontrivial"] = nontriv + nDis
			ev["coverage"].(map[string]any)["rule"] = "P-tier: one evaluation per generated proof obligation (distinct by name); B-tier: one per enumerated input, non-trivial as stated per bounded check"
		}
		os.MkdirAll("/verif/evidence", 0o755)
		data, _ := json.MarshalIndent(ev, "", " ")
		os.WriteFile(filepath.Join("/verif/evidence", id+".json"), append(data, '\n'), 0o644)
	}
	return exit
}

// loadFactor: 1-minute load average relative to the number of cores (16), between 1 and 6.
func loadFactor() float64 {
	data, err := os.ReadFile("/proc/loadavg")
	if err != nil {
		return 1
	}
	var l1 float64
	fmt.Sscanf(string(data), "%f", &l1)
	f := l1 / 16
	if f < 1 {
		return 1
	}
	if f > 6 {
		return 6
	}
	return f
}

func round2(f float64) float64 { return float64(int(f*100+0.5)) / 100 }

func appendUnique(xs []string, s string) []string {
	for _, x := range xs {
		if x == s {
			return xs
		}
	}
	return append(xs, s)
}

func envOr(k, d string) string {
	if v := os.Getenv(k); v != "" {
		return v
	}
	return d
}

type checkRun struct {
	id      string
	tier    string
	repo    string
	scratch string
	timeout time.Duration
	verbose bool
	seed    int64
}

func (r *checkRun) contracts() (*ContractSet, error) {
	cs := NewContractSet()
	if err := cs.LoadRepoContracts(r.repo, modPath); err != nil {
		return nil, err
	}
	if err := cs.LoadDir("/verif/contracts"); err != nil {
		return nil, err
	}
	return cs, nil
}

func (r *checkRun) verifyRepoFunctions(pkgs, funcs, sweep []string) ([]*FuncResult, error) {
	v, err := Load(r.repo, pkgs, nil)
	if err != nil {
		return nil, err
	}
	cs, err := r.contracts()
	if err != nil {
		return nil, err
	}
	v.CS = cs
	v.Solver = &Solver{Timeout: r.timeout, Dir: r.scratch}
	var results []*FuncResult
	for _, f := range funcs {
		key := modPath + "/" + f
		fns := v.FindFunctions(key)
		if len(fns) == 0 {
			results = append(results, &FuncResult{Key: displayName(key), Err: "function under contract not found in the current tree"})
			continue
		}
		ct := cs.Funcs[key]
		if ct == nil {
			results = append(results, &FuncResult{Key: displayName(key), Err: "no contract found (zz_contracts_verif.go missing or renamed)"})
			continue
		}
		for i, fn := range fns {
			disp := displayName(key)
			if len(fns) > 1 {
				disp = fmt.Sprintf("%s[%s]", disp, instanceTag(fn.String(), i))
			}
			results = append(results, v.VerifyFunc(fn, ct, disp))
		}
	}
	for _, f := range sweep {
		key := modPath + "/" + f
		fns := v.FindFunctions(key)
		if len(fns) == 0 {
			results = append(results, &FuncResult{Key: displayName(key), Err: "function of the safety sweep not found in the current tree"})
			continue
		}
		for _, fn := range fns {
			if fn.Origin() != nil {
				continue
			}
			ct := cs.Funcs[key]
			if ct == nil {
				ct = defaultSafetyContract(fn)
			}
			res := v.VerifyFunc(fn, ct, displayName(key))
			res.Assumptions = append(res.Assumptions, "default safety contract of "+displayName(key)+": receiver and pointer parameters are non-nil, nothing is promised; only the panic obligations of the body are generated")
			results = append(results, res)
		}
	}
	v.Discharge(results, 8)
	return results, nil
}

func instanceTag(s string, i int) string {
	// last type argument list, shortened
	if k := strings.LastIndex(s, "["); k >= 0 && strings.HasSuffix(s, "]") {
		t := s[k+1 : len(s)-1]
		if j := strings.LastIndex(t, "/"); j >= 0 {
			t = t[j+1:]
		}
		return t
	}
	return fmt.Sprint(i)
}

func (r *checkRun) writeReplay(o *Obligation) string {
	dir := filepath.Join(replayRoot, r.id)
	os.MkdirAll(dir, 0o755)
	p := filepath.Join(dir, sanitize(o.Name)+".json")
	q := o.Query()
	qp := filepath.Join(dir, sanitize(o.Name)+".smt2")
	os.WriteFile(qp, []byte(q+"(check-sat)\n"), 0o644)
	rec := map[string]any{
		"property":      r.id,
		"obligation":    o.Name,
		"kind":          o.Kind,
		"clause":        o.Text,
		"source":        o.Pos,
		"solver_status": o.Res.Status,
		"solver_tried":  o.Res.Tried,
		"solver_output": truncate(o.Res.Output, 4000),
		"query":         qp,
		"replayed":      false,
		"note":          "the obligation is generated from /repo's current source and is discharged on the reference tree; re-run: z3-new " + qp,
	}
	data, _ := json.MarshalIndent(rec, "", " ")
	os.WriteFile(p, append(data, '\n'), 0o644)
	return p
}

func (r *checkRun) writeReplayWith(o *Obligation, rec map[string]any, reproduced bool) string {
	p := r.writeReplay(o)
	data, err := os.ReadFile(p)
	if err != nil {
		return p
	}
	var m map[string]any
	if json.Unmarshal(data, &m) != nil {
		return p
	}
	m["replayed"] = reproduced
	m["replay"] = rec
	if reproduced {
		m["note"] = "counterexample of the solver executed against the real function with go test -overlay; it reproduces"
	}
	out, _ := json.MarshalIndent(m, "", " ")
	os.WriteFile(p, append(out, '\n'), 0o644)
	return p
}

func (r *checkRun) writeReplayText(name, detail string) string {
	dir := filepath.Join(replayRoot, r.id)
	os.MkdirAll(dir, 0o755)
	p := filepath.Join(dir, sanitize(name)+".json")
	rec := map[string]any{"property": r.id, "obligation": name, "detail": detail, "replayed": false}
	data, _ := json.MarshalIndent(rec, "", " ")
	os.WriteFile(p, append(data, '\n'), 0o644)
	return p
}

// goEnv: environment for go commands run by checks.
func goEnv() []string {
	return append(os.Environ(), "GOFLAGS=-mod=mod", "GOPROXY=off", "GOSUMDB=off", "GOTOOLCHAIN=local", "CGO_ENABLED=0")
}

func runCmd(dir string, timeout time.Duration, name string, args ...string) (string, error) {
	return runCmdEnv(dir, timeout, nil, name, args...)
}

func runCmdEnv(dir string, timeout time.Duration, extraEnv []string, name string, args ...string) (string, error) {
	cmd := exec.Command(name, args...)
	cmd.Dir = dir
	cmd.Env = append(goEnv(), extraEnv...)
	done := make(chan struct{})
	var out []byte
	var err error
	go func() {
		out, err = cmd.CombinedOutput()
		close(done)
	}()
	select {
	case <-done:
		return string(out), err
	case <-time.After(timeout):
		if cmd.Process != nil {
			cmd.Process.Kill()
		}
		<-done
		return string(out), fmt.Errorf("timeout after %s", timeout)
	}
}
