package vc

import (
	"encoding/json"
	"fmt"
	"os"
	"path/filepath"
	"regexp"
	"strconv"
	"strings"
	"sync"
	"time"
)

// The bounded stand-in harness (/verif/bounded/*_test.go) is compiled into the
// lox module as the virtual package internal/zzverif via `go test -overlay`.

var boundedBuild struct {
	sync.Mutex
	bin  string
	err  error
	repo string
}

// buildBoundedInPkg: some stand-ins need unexported functions. Their test files live in
// /verif/bounded_inpkg/<last element of the package path>/ and are injected into that
// package of the working tree with -overlay (as zz_verif_*_test.go; nothing is written to
// /repo); the package's own tests are not run (the binary is started with -test.run).
func (r *checkRun) buildBoundedInPkg(pkg string) (string, error) {
	boundedBuild.Lock()
	defer boundedBuild.Unlock()
	src := filepath.Join("/verif/bounded_inpkg", filepath.Base(pkg))
	ents, err := os.ReadDir(src)
	if err != nil {
		return "", err
	}
	repl := map[string]string{}
	for _, e := range ents {
		if strings.HasSuffix(e.Name(), ".go") {
			repl[filepath.Join(r.repo, pkg, "zz_verif_"+e.Name())] = filepath.Join(src, e.Name())
		}
	}
	ov, _ := json.Marshal(map[string]any{"Replace": repl})
	ovPath := filepath.Join(r.scratch, "bounded-overlay-"+filepath.Base(pkg)+".json")
	os.WriteFile(ovPath, ov, 0o644)
	bin := filepath.Join(r.scratch, "bounded-"+filepath.Base(pkg)+".test")
	if _, err := os.Stat(bin); err == nil {
		return bin, nil
	}
	out, err := runCmd(r.repo, 10*time.Minute, "go", "test", "-c", "-overlay", ovPath, "-vet=off", "-o", bin, "./"+pkg)
	if err != nil {
		return "", fmt.Errorf("building the in-package bounded harness for %s: %v\n%s", pkg, err, out)
	}
	return bin, nil
}

func (r *checkRun) buildBounded() (string, error) {
	boundedBuild.Lock()
	defer boundedBuild.Unlock()
	if boundedBuild.bin != "" && boundedBuild.repo == r.repo {
		return boundedBuild.bin, boundedBuild.err
	}
	ents, err := os.ReadDir("/verif/bounded")
	if err != nil {
		return "", err
	}
	repl := map[string]string{}
	for _, e := range ents {
		if strings.HasSuffix(e.Name(), ".go") {
			repl[filepath.Join(r.repo, "internal/zzverif", e.Name())] = filepath.Join("/verif/bounded", e.Name())
		}
	}
	ov, _ := json.Marshal(map[string]any{"Replace": repl})
	ovPath := filepath.Join(r.scratch, "bounded-overlay.json")
	os.WriteFile(ovPath, ov, 0o644)
	bin := filepath.Join(r.scratch, "bounded.test")
	out, err := runCmd(r.repo, 10*time.Minute, "go", "test", "-c", "-overlay", ovPath, "-vet=off", "-o", bin, "./internal/zzverif")
	if err != nil {
		err = fmt.Errorf("building the bounded harness: %v\n%s", err, out)
	}
	boundedBuild.bin, boundedBuild.err, boundedBuild.repo = bin, err, r.repo
	return bin, err
}

var boundedLine = regexp.MustCompile(`^BOUNDED check=(\S+) cases=(\d+) nontrivial=(\d+) exhaustive=(\w+) violations=(\d+) bound=(".*")$`)
var witnessLine = regexp.MustCompile(`^WITNESS obligation=(\S+) input=("(?:[^"\\]|\\.)*") detail=("(?:[^"\\]|\\.)*") check=(\S+)$`)
var otherProp = regexp.MustCompile(`^((?:C\d\d\+?)+)/`)
var sampleLine = regexp.MustCompile(`^SAMPLE check=(\S+) (".*")$`)

func (r *checkRun) runBounded(bp BoundedPlan) (map[string]any, []violation) {
	res := map[string]any{"contract": bp.Name, "label": "bounded", "bound": bp.Bound, "test": bp.Test}
	var bin string
	var err error
	if bp.Pkg != "" {
		bin, err = r.buildBoundedInPkg(bp.Pkg)
	} else {
		bin, err = r.buildBounded()
	}
	if err != nil {
		res["error"] = err.Error()
		return res, []violation{{Obligation: "bounded/" + bp.Name + "/build", Reason: err.Error()}}
	}
	timeout := 10 * time.Minute
	if r.tier == "thorough" {
		timeout = 60 * time.Minute
	}
	env := []string{"VERIF_TIER=" + r.tier, fmt.Sprintf("VERIF_SEED=%d", r.seed), "LOXVC_SCRATCH=" + r.scratch, "LOXVC_REPO=" + r.repo}
	t0 := time.Now()
	out, runErr := runCmdEnv(filepath.Join(r.repo, "internal"), timeout, env, bin, "-test.run", "^"+bp.Test+"$", "-test.timeout", timeout.String(), "-test.v")
	res["wall_s"] = round2(time.Since(t0).Seconds())
	var viols []violation
	cases, nontriv := 0, 0
	exhaustive := true
	found := false
	var samples []string
	foreign := 0
	for _, ln := range strings.Split(out, "\n") {
		ln = strings.TrimSpace(ln)
		if m := boundedLine.FindStringSubmatch(ln); m != nil {
			found = true
			c, _ := strconv.Atoi(m[2])
			n, _ := strconv.Atoi(m[3])
			cases += c
			nontriv += n
			if m[4] != "true" {
				exhaustive = false
			}
			if b, err := strconv.Unquote(m[6]); err == nil {
				res["bound"] = b
			}
		} else if m := witnessLine.FindStringSubmatch(ln); m != nil {
			in, _ := strconv.Unquote(m[2])
			det, _ := strconv.Unquote(m[3])
			obl := "bounded/" + m[4] + "/" + m[1]
			// obligations named after another property are reported by that property's check
			if pm := otherProp.FindStringSubmatch(m[1]); pm != nil && !strings.Contains(pm[1], r.id) {
				foreign++
				continue
			}
			rp := r.writeReplayJSON(obl+"_"+shortHash(in), map[string]any{
				"property": r.id, "obligation": obl, "label": "bounded", "input": in, "observed": det,
				"replayed": true, "how": "the input was executed against the real code by the harness /verif/bounded (go test -overlay); re-run: ./check " + r.id + " " + r.tier,
			})
			viols = append(viols, violation{Obligation: obl, Reason: "input " + in + ": " + det, Replay: rp, Reproduced: true})
		} else if m := sampleLine.FindStringSubmatch(ln); m != nil {
			if s, err := strconv.Unquote(m[2]); err == nil {
				samples = append(samples, s)
			}
		}
	}
	res["cases"] = cases
	res["nontrivial"] = nontriv
	res["exhaustive"] = exhaustive
	res["samples"] = samples
	res["violations"] = len(viols)
	if foreign > 0 {
		res["witnesses_of_other_properties"] = foreign
	}
	if !found {
		msg := "the bounded harness did not complete"
		if runErr != nil {
			msg += ": " + runErr.Error()
		}
		res["error"] = msg + "\n" + truncate(tail(out, 1500), 1500)
		viols = append(viols, violation{Obligation: "bounded/" + bp.Name + "/completed", Reason: msg + "; output: " + truncate(tail(out, 800), 800)})
	}
	// group witnesses by obligation: one VIOLATION per obligation (first witness)
	seen := map[string]bool{}
	var uniq []violation
	for _, v := range viols {
		if !seen[v.Obligation] {
			seen[v.Obligation] = true
			uniq = append(uniq, v)
		}
	}
	return res, uniq
}

func tail(s string, n int) string {
	if len(s) > n {
		return s[len(s)-n:]
	}
	return s
}

func shortHash(s string) string {
	h := uint32(2166136261)
	for i := 0; i < len(s); i++ {
		h ^= uint32(s[i])
		h *= 16777619
	}
	return fmt.Sprintf("%08x", h)
}

func (r *checkRun) writeReplayJSON(name string, rec map[string]any) string {
	dir := filepath.Join(replayRoot, r.id)
	os.MkdirAll(dir, 0o755)
	p := filepath.Join(dir, sanitize(name)+".json")
	data, _ := json.MarshalIndent(rec, "", " ")
	os.WriteFile(p, append(data, '\n'), 0o644)
	return p
}
