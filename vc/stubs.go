package vc

import "fmt"

type StaticResult struct {
	Name   string
	OK     bool
	Detail string
}

func (r *checkRun) staticCheck(name string) ([]*StaticResult, error) {
	return nil, fmt.Errorf("static check %s not implemented", name)
}

