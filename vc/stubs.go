package vc


type StaticResult struct {
	Name   string
	OK     bool
	Detail string
}


