package vc

import "fmt"

type StaticResult struct {
	Name   string
	OK     bool
	Detail string
}

func (r *checkRun) staticCheck(name string) ([]*StaticResult, error) {
	return nil, fmt.Errorf("static check %s not implemented", name)
}

func (r *checkRun) runBounded(bp BoundedPlan) (map[string]any, []violation) {
	return map[string]any{"name": bp.Name, "error": "not implemented"}, nil
}
