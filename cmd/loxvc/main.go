package main

import (
	"os"

	"verif/vc"
)

func main() {
	os.Exit(vc.Main(os.Args[1:]))
}
