#!/usr/bin/env python3
"""Regenerates MANIFEST.json from plan.json + manifest_meta.json (kept by hand)."""
import json, subprocess
plan = json.load(open('/verif/plan.json'))
meta = json.load(open('/verif/manifest_meta.json'))
props = [json.loads(l) for l in open('/verif/properties.jsonl')]
hooks_commits = subprocess.run(['git','-C','/repo','log','--format=%H %s'],capture_output=True,text=True).stdout.splitlines()
src = [l.split()[0] for l in hooks_commits if l.split(' ',1)[1].startswith('verif:')]
checks, na = [], []
for p in props:
    pid = p['id']
    if pid in plan and pid in meta['checks']:
        m = meta['checks'][pid]
        checks.append({
            "property_id": pid,
            "quick_cmd": f"./check {pid} quick",
            "thorough_cmd": f"./check {pid} thorough",
            "evidence_file": f"/verif/evidence/{pid}.json",
            "replay_cmd_template": "./check replay {path}",
            "engine": "loxvc",
            "level_claimed": {"category": plan[pid]['level'], "text": m['text'], "design_ref": m.get('design_ref', 'DESIGN.md §5')},
            "level_note": m['note'],
            "technique": m['technique'],
        })
    else:
        na.append({"property_id": pid, "reason": meta['not_applicable'].get(pid, "not yet brought under contract in this round (see DESIGN.md §5)")})
man = {
    "version": 1,
    "setup_cmd": "./setup.sh",
    "hooks": {
        "guard": "verif",
        "enable": "-tags verif (comment-only contract files zz_contracts_verif.go; they add no code)",
        "baseline_off_cmd": "cd /repo && GOFLAGS=-mod=mod GOPROXY=off go test -vet=off -count=1 ./...",
        "source_commits": src,
        "add_only": True,
    },
    "engines": [{"name": "loxvc", "path": "/verif/vc", "serves_properties": [c['property_id'] for c in checks],
                 "kind_free_text": "contract-based deductive verifier for Go written for this task: VC generation over go/ssa (naive form, instantiated generics), contracts in //@ comment files in /repo, obligations raced on z3 5.1.0 / z3 4.8.12 / cvc5 1.0.3; bounded stand-ins labelled as such"}],
    "checks": checks,
    "not_applicable": na,
    "notes": meta.get('notes', ''),
}
json.dump(man, open('/verif/MANIFEST.json','w'), indent=1)
print(len(checks), 'checks;', len(na), 'not applicable')
