package codegen

import (
	"fmt"
	"math/rand"
	"os"
	"strconv"
	"testing"
)

// Bounded stand-in for the one trusted contract of table.go: rowKey is a function of the
// row's contents and is injective (the deductive contract of AddRow assumes it), plus a
// decode of Array() by the documented format on random tables.

type vreport struct {
	name       string
	cases      int
	witnesses  []string
	perObl     map[string]int
}

func (r *vreport) fail(obligation, input, detail string) {
	if r.perObl == nil {
		r.perObl = map[string]int{}
	}
	r.perObl[obligation]++
	if r.perObl[obligation] <= 3 {
		r.witnesses = append(r.witnesses, fmt.Sprintf("WITNESS obligation=%s input=%s detail=%s", obligation, strconv.Quote(input), strconv.Quote(detail)))
	}
}

func (r *vreport) done(t *testing.T, exhaustive bool, bound string) {
	for _, w := range r.witnesses {
		fmt.Printf("%s check=%s\n", w, r.name)
	}
	fmt.Printf("BOUNDED check=%s cases=%d nontrivial=%d exhaustive=%v violations=%d bound=%s\n", r.name, r.cases, r.cases, exhaustive, len(r.witnesses), strconv.Quote(bound))
	if len(r.witnesses) > 0 {
		t.Fail()
	}
}

func rowsOver[E int32 | uint32](vals []E, maxLen int) [][]E {
	out := [][]E{{}}
	level := [][]E{{}}
	for l := 1; l <= maxLen; l++ {
		var next [][]E
		for _, r := range level {
			for _, v := range vals {
				nr := append(append([]E{}, r...), v)
				next = append(next, nr)
			}
		}
		out = append(out, next...)
		level = next
	}
	return out
}

func checkKeys[E int32 | uint32](rep *vreport, label string, vals []E) {
	tb := newTable[E]()
	seen := map[string][]E{}
	for _, row := range rowsOver(vals, 3) {
		rep.cases++
		k := tb.rowKey(row)
		if k2 := tb.rowKey(append([]E{}, row...)); k2 != k {
			rep.fail("C01+C09+C10+C19/table.rowKey/function-of-contents", fmt.Sprintf("%s %v", label, row), "two calls on equal rows give different keys")
		}
		if other, ok := seen[k]; ok {
			rep.fail("C01+C09+C10+C19/table.rowKey/injective", fmt.Sprintf("%s %v and %v", label, other, row), fmt.Sprintf("distinct rows share the key %q: AddRow would store one row for both", k))
		}
		seen[k] = row
	}
}

func checkRoundTrip[E int32 | uint32](rep *vreport, label string, rnd *rand.Rand, vals []E) {
	for iter := 0; iter < 300; iter++ {
		rep.cases++
		tb := newTable[E]()
		var rows [][]E
		var idx []int
		n := 1 + rnd.Intn(8)
		cur := -1
		pool := rowsOver(vals[:4], 2)
		for i := 0; i < n; i++ {
			cur += 1 + rnd.Intn(3) // gaps in the index vector
			row := pool[rnd.Intn(len(pool))]
			rows = append(rows, row)
			idx = append(idx, cur)
			tb.AddRow(cur, row)
		}
		arr := tb.Array()
		desc := fmt.Sprintf("%s rows=%v at %v", label, rows, idx)
		hdr := cur + 1
		if len(arr) < hdr {
			rep.fail("C01+C09+C10+C19/table.Array/decodes-to-the-rows-added", desc, "array shorter than the index vector")
			continue
		}
		at := map[int][]E{}
		for i, ix := range idx {
			at[ix] = rows[i]
		}
		for i := 0; i < hdr; i++ {
			off := int(int32(arr[i]))
			row, has := at[i]
			if !has {
				if off != -1 {
					rep.fail("C01+C09+C10+C19/table.Array/decodes-to-the-rows-added", desc, fmt.Sprintf("index %d has no row but offset %d", i, off))
				}
				continue
			}
			if off < hdr || off >= len(arr) || off+1+int(arr[off]) > len(arr) {
				rep.fail("C01+C09+C10+C19/table.Array/decodes-to-the-rows-added", desc, fmt.Sprintf("offset %d of index %d is outside the array", off, i))
				continue
			}
			got := arr[off+1 : off+1+int(arr[off])]
			if fmt.Sprint(got) != fmt.Sprint(row) {
				rep.fail("C01+C09+C10+C19/table.Array/decodes-to-the-rows-added", desc, fmt.Sprintf("index %d decodes to %v, the row added was %v", i, got, row))
			}
		}
	}
}

func TestVerifTableRows(t *testing.T) {
	rep := &vreport{name: "table-rows"}
	seed := int64(1)
	if s, err := strconv.ParseInt(os.Getenv("VERIF_SEED"), 10, 64); err == nil {
		seed = s
	}
	rnd := rand.New(rand.NewSource(seed))
	i32 := []int32{0, 1, 7, 11, 17, 117, 127, 128, 255, 256, 16383, 16384, 2147483647, -1, -2, -128, -2147483648}
	u32 := []uint32{0, 1, 7, 11, 17, 117, 127, 128, 255, 256, 16383, 16384, 2147483647, 2147483648, 4294967295}
	checkKeys(rep, "int32", i32)
	checkKeys(rep, "uint32", u32)
	checkRoundTrip(rep, "int32", rnd, i32)
	checkRoundTrip(rep, "uint32", rnd, u32)
	rep.done(t, false, "rowKey on every row of length <=3 over 17 (int32) and 15 (uint32) boundary values (digit-concatenation collisions such as [11 7]/[1 17], varint width boundaries, extremes); 600 seeded random tables decoded by the documented format")
}
