package dfa

import (
	"fmt"
	"strconv"
	"testing"

	"github.com/dcaiafa/lox/internal/lexergen/nfa"
)

// Bounded stand-in for the identity of DFA states during subset construction: State.sig
// is an injective function of the list of NFA state ids (two different subsets must never
// be taken for the same DFA state), checked on id lists over boundary values.

func TestVerifStateSig(t *testing.T) {
	ids := []uint32{0, 1, 0x7F, 0x80, 0xFF, 0x100, 0x7FF, 0x800, 0xD7FF, 0xD800, 0xDBFF, 0xDC00, 0xDFFF, 0xE000, 0xFFFD, 0xFFFF,
		0x10000, 0x10FFFF, 0x110000, 0x01000000, 0x7FFFFFFF, 0x80000000, 0xFFFFFFFF}
	var lists [][]uint32
	lists = append(lists, nil)
	for _, a := range ids {
		lists = append(lists, []uint32{a})
		for _, b := range ids {
			lists = append(lists, []uint32{a, b})
		}
	}
	for _, a := range ids[:8] {
		for _, b := range ids[8:14] {
			for _, c := range ids[12:] {
				lists = append(lists, []uint32{a, b, c})
			}
		}
	}
	seen := map[string][]uint32{}
	var witnesses []string
	for _, l := range lists {
		s := &State{}
		for _, id := range l {
			s.NFAStates = append(s.NFAStates, &nfa.State{ID: id})
		}
		k := s.sig()
		if other, ok := seen[k]; ok && len(witnesses) < 3 {
			witnesses = append(witnesses, fmt.Sprintf("WITNESS obligation=C02+C10/dfa.State.sig/injective input=%s detail=%s", strconv.Quote(fmt.Sprintf("%#x and %#x", other, l)), strconv.Quote("two different sets of NFA states have the same signature: subset construction would take them for one DFA state")))
		}
		seen[k] = l
	}
	for _, w := range witnesses {
		fmt.Printf("%s check=dfa-state-identity\n", w)
	}
	fmt.Printf("BOUNDED check=dfa-state-identity cases=%d nontrivial=%d exhaustive=false violations=%d bound=%s\n", len(lists), len(lists), len(witnesses), strconv.Quote("lists of 0-3 NFA state ids over 23 boundary values (UTF-8 width boundaries, the surrogate range, 0x10FFFF and beyond, 32-bit extremes)"))
	if len(witnesses) > 0 {
		t.Fail()
	}
}
