package bounds

type Token struct {
	Type int
	Pos  int
	Str  []byte
}

type span struct {
	node       any
	begin, end Token
}

type fxParser struct {
	lox
	errs  []Error
	spans []span
}

func (p *fxParser) on_unit(s []int) int { return len(s) }

func (p *fxParser) on_stmt(e int, _ Token) int { return e }

func (p *fxParser) on_stmt__err(e Error, _ Token) int {
	p.errs = append(p.errs, e)
	return 0
}

func (p *fxParser) on_expr__bin(l int, op Token, r int) int { return l + r + op.Type }

func (p *fxParser) on_expr__paren(_ Token, e int, _ Token) int { return e }

func (p *fxParser) on_expr__call(id Token, _ Token, args []int, _ Token) int {
	return len(args) + id.Type
}

func (p *fxParser) on_expr__num(a Token, n Token, b Token) int { return n.Type }

func (p *fxParser) on_opt(t Token) Token { return t }

func (p *fxParser) _onBounds(r any, begin, end Token) {
	p.spans = append(p.spans, span{r, begin, end})
}
