package plain

type Token struct {
	Type int
	Pos  int
	Str  []byte
}

type fxParser struct {
	lox
	errs []Error
	out  []int
}

func (p *fxParser) on_unit(s []int) int { return len(s) }

func (p *fxParser) on_stmt(e int, _ Token) int { return e }

func (p *fxParser) on_stmt__err(e Error, _ Token) int {
	p.errs = append(p.errs, e)
	return -1
}

func (p *fxParser) on_expr__bin(l int, op Token, r int) int { return l + r + op.Type }

func (p *fxParser) on_expr__paren(_ Token, e int, _ Token) int { return e }

func (p *fxParser) on_expr__call(id Token, _ Token, args []int, _ Token) int { return len(args) + id.Type }

func (p *fxParser) on_expr__atom(a int) int { return a }

func (p *fxParser) on_atom__tok(t Token) int { return t.Type }

func (p *fxParser) on_atom__long(c Token, a Token, b Token, d Token, ids []Token, _ Token) int {
	return c.Type + a.Type + b.Type + d.Type + len(ids)
}
