package zzverif

import (
	"encoding/json"
	"fmt"
	"strings"
	"testing"
	"time"
)

// The non-greedy net once more, this time through the emitted tables and the real
// generated PushRune (the DFA-level net above cannot see what EmitLexer writes): every
// rule shape lives in a mode of its own inside one generated package; the driver
// starts a real _LexerStateMachine in that mode and reads one token with
// loxlex/simplelexer.

type ngJob struct {
	pre, term, card string
	body            ngBody
	extra           string // "", "disjoint", "overlap"
	uni             bool   // the twin over non-ASCII characters: b is written → and c is written é
}

// uniText rewrites rule text or input for the non-ASCII twin of a job.
func (j ngJob) uniText(s string) string {
	if !j.uni {
		return s
	}
	return strings.NewReplacer("b", "→", "c", "é").Replace(s)
}

func ngJobs() []ngJob {
	prefixes := []string{"a", "ab", "c"}
	bodies := []ngBody{{"[ab]", "ab"}, {".", "abc"}, {"[a-c]", "abc"}, {"('a' | 'b')", "ab"}, {"[b]", "b"}, {"[a]", "a"}}
	terms := []string{"b", "ab", "bb", "aba", "c", "cc", "a"}
	var jobs []ngJob
	for _, p := range prefixes {
		for _, b := range bodies {
			for _, tm := range terms {
				for _, c := range []string{"*?", "+?"} {
					for _, e := range []string{"", "disjoint", "overlap"} {
						jobs = append(jobs, ngJob{pre: p, term: tm, card: c, body: b, extra: e})
					}
					// multi-byte prefix, body and terminator characters
					if b.text != "[a-c]" && (strings.ContainsAny(p, "bc") || strings.ContainsAny(tm, "bc")) {
						jobs = append(jobs, ngJob{pre: p, term: tm, card: c, body: b, uni: true})
					}
				}
			}
		}
	}
	return jobs
}

// ngWant: end of the token N on input s (first terminator after the prefix and `min`
// repetitions), or -1 when N matches no prefix of s.
func (j ngJob) want(s string) int {
	if !strings.HasPrefix(s, j.pre) {
		return -1
	}
	min := 0
	if j.card == "+?" {
		min = 1
	}
	pl := len(j.pre)
	for n := 0; pl+n <= len(s); n++ {
		if n >= min && strings.HasPrefix(s[pl+n:], j.term) {
			return pl + n + len(j.term)
		}
		if pl+n < len(s) && !strings.ContainsRune(j.body.set, rune(s[pl+n])) {
			break
		}
	}
	return -1
}

const ngDriver = `package main

import (
	"bufio"
	"encoding/json"
	gotoken "go/token"
	"os"

	"github.com/dcaiafa/loxlex/simplelexer"
)

type Token = simplelexer.Token

type fxParser struct {
	lox
}

func (p *fxParser) on_s(t Token) any { return nil }

type req struct {
	Mode int    ` + "`json:\"mode\"`" + `
	Text string ` + "`json:\"text\"`" + `
}

type res struct {
	Name string ` + "`json:\"name\"`" + `
	End  int    ` + "`json:\"end\"`" + `
}

func main() {
	in := bufio.NewScanner(os.Stdin)
	in.Buffer(make([]byte, 1<<20), 1<<20)
	out := json.NewEncoder(os.Stdout)
	for in.Scan() {
		var r req
		if err := json.Unmarshal(in.Bytes(), &r); err != nil {
			panic(err)
		}
		input := []byte(r.Text)
		fset := gotoken.NewFileSet()
		file := fset.AddFile("in", -1, len(input))
		sm := new(_LexerStateMachine)
		sm.mode = _lexerModes[r.Mode]
		lex := simplelexer.New(simplelexer.Config{StateMachine: sm, File: file, Input: input})
		t, typ := lex.ReadToken()
		out.Encode(res{_TokenToString(typ), file.Offset(t.Pos) + len(t.Str)})
	}
}
`

func TestNonGreedyGenerated(t *testing.T) {
	rep := newReport("nongreedy-generated")
	jobs := ngJobs()
	maxLen := 6
	if thorough {
		maxLen = 7
	}
	var sb strings.Builder
	sb.WriteString("@lexer\nZ = 'z'\n")
	for i, j := range jobs {
		fmt.Fprintf(&sb, "ENTER%d = 'z%d' @push_mode(M%04d)\n", i, i, i)
		_ = j
	}
	for i, j := range jobs {
		fmt.Fprintf(&sb, "@mode M%04d {\n  N%d = '%s' %s%s '%s'\n", i, i, j.uniText(j.pre), j.uniText(j.body.text), j.card, j.uniText(j.term))
		switch j.extra {
		case "disjoint":
			fmt.Fprintf(&sb, "  G%d = [xy]+\n", i)
		case "overlap":
			fmt.Fprintf(&sb, "  G%d = [abc]+\n", i)
		}
		sb.WriteString("}\n")
	}
	sb.WriteString("@parser\n@start s = Z\n")
	g := generate("ng", map[string]string{"spec.lox": sb.String(), "main.go": ngDriver}, true)
	defer cleanup(g.dir)
	if g.panicked != "" || !g.ok || g.buildErr != "" {
		rep.count(true)
		rep.fail("C08/fixture-generates-and-compiles", "all shapes, one mode each", g.panicked+firstLine(g.diag)+tailStr(g.buildErr, 400))
		rep.done(t, true, "")
		return
	}
	var inputs []string
	var gen func(cur string)
	gen = func(cur string) {
		if cur != "" {
			inputs = append(inputs, cur)
		}
		if len(cur) == maxLen {
			return
		}
		for _, c := range "abc" {
			gen(cur + string(c))
		}
	}
	gen("")
	type q struct {
		job  int
		in   string
		want int
	}
	var qs []q
	var reqs []any
	for i, j := range jobs {
		for _, s := range inputs {
			w := j.want(s)
			if w < 0 {
				continue
			}
			qs = append(qs, q{i, s, len(j.uniText(s[:w]))})
			reqs = append(reqs, map[string]any{"mode": i + 1, "text": j.uniText(s)})
		}
	}
	outs, msg := runProg(g.dir, reqs, 10*time.Minute)
	if msg != "" || len(outs) != len(qs) {
		rep.count(true)
		rep.fail("C08/driver-runs", "all shapes", fmt.Sprintf("%d answers for %d inputs: %s", len(outs), len(qs), msg))
		rep.done(t, true, "")
		return
	}
	for k, x := range qs {
		var r struct {
			Name string `json:"name"`
			End  int    `json:"end"`
		}
		json.Unmarshal(outs[k], &r)
		j := jobs[x.job]
		rep.count(x.want < len(j.uniText(x.in)))
		name := fmt.Sprintf("N = '%s' %s%s '%s'", j.uniText(j.pre), j.uniText(j.body.text), j.card, j.uniText(j.term))
		if j.extra == "disjoint" {
			name += " ; G = [xy]+"
		}
		if j.extra == "overlap" {
			name += " ; G = [abc]+"
			gl := 0
			for gl < len(x.in) && strings.ContainsRune("abc", rune(x.in[gl])) {
				gl++
			}
			if r.Name == fmt.Sprintf("G%d", x.job) && r.End == gl {
				continue // the greedy rule's longest match is an acceptable outcome where both apply
			}
		}
		if r.Name != fmt.Sprintf("N%d", x.job) || r.End != x.want {
			obl := "C08/token-ends-at-first-terminator"
			if j.card == "+?" {
				obl = "C08/plus-nongreedy-ends-at-first-terminator"
			}
			if j.extra == "overlap" {
				obl += "/with-overlapping-greedy-rule"
			}
			rep.fail(obl, name+" input="+j.uniText(x.in), fmt.Sprintf("expected token N ending at %d, the generated lexer returned %s ending at %d", x.want, r.Name, r.End))
		}
	}
	rep.sample(fmt.Sprintf("%d rule shapes, %d (shape, input) pairs", len(jobs), len(qs)))
	rep.done(t, true, fmt.Sprintf("rules 'prefix body(*?|+?) terminator' for 3 prefixes x 6 one-character bodies x 7 literal terminators x 2 operators, alone, with a disjoint greedy rule, with an overlapping greedy rule, and written with multi-byte characters, each in a mode of its own of one generated package; all inputs over {a,b,c} of length <=%d through the real generated PushRune and loxlex/simplelexer", maxLen))
}
