package zzverif

import (
	"fmt"
	"sort"
	"strings"
	"testing"

	"github.com/dcaiafa/lox/internal/parsergen/lr1"
)

// ---- small grammars ---------------------------------------------------------------

// A symbol is a terminal (>= 0: user terminal t) or a rule (< 0: rule -(s+1)).
type sgProd struct {
	lhs int
	rhs []int
}

type sGrammar struct {
	nT, nR int
	prods  []sgProd
}

func (g sGrammar) String() string {
	var parts []string
	for _, p := range g.prods {
		var rhs []string
		for _, s := range p.rhs {
			if s >= 0 {
				rhs = append(rhs, string(rune('a'+s)))
			} else {
				rhs = append(rhs, fmt.Sprintf("R%d", -s-1))
			}
		}
		if len(rhs) == 0 {
			rhs = []string{"ε"}
		}
		parts = append(parts, fmt.Sprintf("R%d = %s", p.lhs, strings.Join(rhs, " ")))
	}
	return strings.Join(parts, " ; ")
}

// usable: the start rule and every referenced rule have productions.
func (g sGrammar) usable() bool {
	has := make([]bool, g.nR)
	for _, p := range g.prods {
		has[p.lhs] = true
	}
	if !has[0] {
		return false
	}
	for _, p := range g.prods {
		for _, s := range p.rhs {
			if s < 0 && !has[-s-1] {
				return false
			}
		}
	}
	return true
}

// toLR1 builds the generator's grammar object through its public API. The generator
// orders symbols by name in several places; scheme 1 names them so that rules sort
// before terminals and in reverse declaration order.
func (g sGrammar) toLR1(scheme int) (*lr1.Grammar, []*lr1.Terminal, []*lr1.Rule) {
	lg := lr1.NewGrammar()
	var ts []*lr1.Terminal
	for i := 0; i < g.nT; i++ {
		name := string(rune('A' + i))
		if scheme == 1 {
			name = fmt.Sprintf("t%d", g.nT-i)
		}
		ts = append(ts, lg.AddTerminal(name))
	}
	var rs []*lr1.Rule
	for i := 0; i < g.nR; i++ {
		name := fmt.Sprintf("r%d", i)
		if scheme == 1 {
			name = fmt.Sprintf("R%d", g.nR-i)
		}
		rs = append(rs, lg.AddRule(name))
	}
	for _, p := range g.prods {
		var terms []lr1.Term
		for _, s := range p.rhs {
			if s >= 0 {
				terms = append(terms, ts[s])
			} else {
				terms = append(terms, rs[-s-1])
			}
		}
		lg.AddProd(rs[p.lhs], terms...)
	}
	lg.SetStart(rs[0])
	return lg, ts, rs
}

// enumGrammars lists every grammar with nT terminals, nR rules, at most maxP
// distinct productions, right-hand sides of length <= maxRHS.
func enumGrammars(nT, nR, maxP, maxRHS int) []sGrammar {
	syms := []int{}
	for t := 0; t < nT; t++ {
		syms = append(syms, t)
	}
	for r := 0; r < nR; r++ {
		syms = append(syms, -(r + 1))
	}
	var rhss [][]int
	var gen func(cur []int)
	gen = func(cur []int) {
		rhss = append(rhss, append([]int{}, cur...))
		if len(cur) == maxRHS {
			return
		}
		for _, s := range syms {
			gen(append(cur, s))
		}
	}
	gen(nil)
	var all []sgProd
	for l := 0; l < nR; l++ {
		for _, r := range rhss {
			all = append(all, sgProd{l, r})
		}
	}
	var out []sGrammar
	var pick func(start int, cur []sgProd)
	pick = func(start int, cur []sgProd) {
		if len(cur) > 0 {
			g := sGrammar{nT: nT, nR: nR, prods: append([]sgProd{}, cur...)}
			if g.usable() {
				out = append(out, g)
			}
		}
		if len(cur) == maxP {
			return
		}
		for i := start; i < len(all); i++ {
			pick(i+1, append(cur, all[i]))
		}
	}
	pick(0, nil)
	return out
}

// ---- reference: membership by Earley -------------------------------------------------

type refGrammar struct {
	g       *lr1.Grammar
	prodsOf map[*lr1.Rule][]*lr1.Prod
}

func newRef(g *lr1.Grammar) *refGrammar {
	r := &refGrammar{g: g, prodsOf: map[*lr1.Rule][]*lr1.Prod{}}
	for _, p := range g.Prods {
		r.prodsOf[p.Rule] = append(r.prodsOf[p.Rule], p)
	}
	return r
}

type eItem struct {
	prod, dot, origin int
}

// earley decides whether the terminal-index string w derives from the start
// symbol (production 0 is S' -> start).
func (r *refGrammar) earley(w []int) bool {
	n := len(w)
	sets := make([]map[eItem]bool, n+1)
	order := make([][]eItem, n+1)
	for i := range sets {
		sets[i] = map[eItem]bool{}
	}
	add := func(k int, it eItem) {
		if !sets[k][it] {
			sets[k][it] = true
			order[k] = append(order[k], it)
		}
	}
	add(0, eItem{0, 0, 0})
	for k := 0; k <= n; k++ {
		for idx := 0; idx < len(order[k]); idx++ {
			it := order[k][idx]
			p := r.g.Prods[it.prod]
			if it.dot == len(p.Terms) {
				// complete
				for _, o := range order[it.origin] {
					op := r.g.Prods[o.prod]
					if o.dot < len(op.Terms) {
						if rule, ok := op.Terms[o.dot].(*lr1.Rule); ok && rule == p.Rule {
							add(k, eItem{o.prod, o.dot + 1, o.origin})
						}
					}
				}
				// note: items added to order[it.origin] later (when origin == k) are handled
				// by re-scanning below.
				continue
			}
			switch t := p.Terms[it.dot].(type) {
			case *lr1.Rule:
				for _, q := range r.prodsOf[t] {
					add(k, eItem{q.Index, 0, k})
				}
				// nullable completion already present in this set
				for _, c := range order[k] {
					cp := r.g.Prods[c.prod]
					if c.origin == k && c.dot == len(cp.Terms) && cp.Rule == t {
						add(k, eItem{it.prod, it.dot + 1, it.origin})
					}
				}
			case *lr1.Terminal:
				if k < n && t.Index == w[k] {
					add(k+1, eItem{it.prod, it.dot + 1, it.origin})
				}
			}
		}
	}
	return sets[n][eItem{0, 1, 0}]
}

// ---- reference: canonical LR(1), merged by core (LALR(1)) --------------------------------

type rItem struct{ prod, dot, la int }

func (r *refGrammar) firstSets() (first map[*lr1.Rule]map[int]bool, nullable map[*lr1.Rule]bool) {
	first = map[*lr1.Rule]map[int]bool{}
	nullable = map[*lr1.Rule]bool{}
	for _, rule := range r.g.Rules {
		first[rule] = map[int]bool{}
	}
	for changed := true; changed; {
		changed = false
		for _, p := range r.g.Prods {
			allNull := true
			for _, t := range p.Terms {
				switch x := t.(type) {
				case *lr1.Terminal:
					if !first[p.Rule][x.Index] {
						first[p.Rule][x.Index] = true
						changed = true
					}
					allNull = false
				case *lr1.Rule:
					for a := range first[x] {
						if !first[p.Rule][a] {
							first[p.Rule][a] = true
							changed = true
						}
					}
					if !nullable[x] {
						allNull = false
					}
				}
				if !allNull {
					break
				}
			}
			if allNull && !nullable[p.Rule] {
				nullable[p.Rule] = true
				changed = true
			}
		}
	}
	return
}

type refState struct {
	items map[rItem]bool
	trans map[lr1.Term]int
}

func coreKey(items map[rItem]bool) string {
	seen := map[[2]int]bool{}
	var ks [][2]int
	for it := range items {
		if it.prod == 0 || it.dot != 0 {
			k := [2]int{it.prod, it.dot}
			if !seen[k] {
				seen[k] = true
				ks = append(ks, k)
			}
		}
	}
	sort.Slice(ks, func(i, j int) bool {
		if ks[i][0] != ks[j][0] {
			return ks[i][0] < ks[j][0]
		}
		return ks[i][1] < ks[j][1]
	})
	return fmt.Sprint(ks)
}

func fullKey(items map[rItem]bool) string {
	var ks []rItem
	for it := range items {
		ks = append(ks, it)
	}
	sort.Slice(ks, func(i, j int) bool {
		a, b := ks[i], ks[j]
		if a.prod != b.prod {
			return a.prod < b.prod
		}
		if a.dot != b.dot {
			return a.dot < b.dot
		}
		return a.la < b.la
	})
	return fmt.Sprint(ks)
}

type refLALR struct {
	states []*refState // merged states
	byCore map[string]int
}

func (r *refGrammar) lalr() *refLALR {
	first, nullable := r.firstSets()
	firstOf := func(beta []lr1.Term, la int) map[int]bool {
		out := map[int]bool{}
		for _, t := range beta {
			switch x := t.(type) {
			case *lr1.Terminal:
				out[x.Index] = true
				return out
			case *lr1.Rule:
				for a := range first[x] {
					out[a] = true
				}
				if !nullable[x] {
					return out
				}
			}
		}
		out[la] = true
		return out
	}
	closure := func(items map[rItem]bool) map[rItem]bool {
		work := make([]rItem, 0, len(items))
		for it := range items {
			work = append(work, it)
		}
		for len(work) > 0 {
			it := work[len(work)-1]
			work = work[:len(work)-1]
			p := r.g.Prods[it.prod]
			if it.dot >= len(p.Terms) {
				continue
			}
			rule, ok := p.Terms[it.dot].(*lr1.Rule)
			if !ok {
				continue
			}
			for a := range firstOf(p.Terms[it.dot+1:], it.la) {
				for _, q := range r.prodsOf[rule] {
					n := rItem{q.Index, 0, a}
					if !items[n] {
						items[n] = true
						work = append(work, n)
					}
				}
			}
		}
		return items
	}
	// canonical collection
	var canon []*refState
	index := map[string]int{}
	start := closure(map[rItem]bool{{0, 0, 0}: true})
	canon = append(canon, &refState{items: start, trans: map[lr1.Term]int{}})
	index[fullKey(start)] = 0
	for i := 0; i < len(canon); i++ {
		st := canon[i]
		next := map[lr1.Term]map[rItem]bool{}
		for it := range st.items {
			p := r.g.Prods[it.prod]
			if it.dot < len(p.Terms) {
				s := p.Terms[it.dot]
				if next[s] == nil {
					next[s] = map[rItem]bool{}
				}
				next[s][rItem{it.prod, it.dot + 1, it.la}] = true
			}
		}
		for s, kernel := range next {
			to := closure(kernel)
			k := fullKey(to)
			j, ok := index[k]
			if !ok {
				j = len(canon)
				canon = append(canon, &refState{items: to, trans: map[lr1.Term]int{}})
				index[k] = j
			}
			st.trans[s] = j
		}
	}
	// merge by core
	l := &refLALR{byCore: map[string]int{}}
	merged := make([]int, len(canon))
	for i, st := range canon {
		ck := coreKey(st.items)
		j, ok := l.byCore[ck]
		if !ok {
			j = len(l.states)
			l.states = append(l.states, &refState{items: map[rItem]bool{}, trans: map[lr1.Term]int{}})
			l.byCore[ck] = j
		}
		merged[i] = j
		for it := range st.items {
			l.states[j].items[it] = true
		}
	}
	for i, st := range canon {
		for s, to := range st.trans {
			l.states[merged[i]].trans[s] = merged[to]
		}
	}
	return l
}

// actionsOf: the action set of (state, terminal) in the reference automaton,
// as strings "s<core>", "r<prod>", "acc".
func (l *refLALR) actionsOf(r *refGrammar, st *refState, coreOf func(int) string) map[int]map[string]bool {
	out := map[int]map[string]bool{}
	add := func(t int, a string) {
		if out[t] == nil {
			out[t] = map[string]bool{}
		}
		out[t][a] = true
	}
	for it := range st.items {
		p := r.g.Prods[it.prod]
		if it.dot == len(p.Terms) {
			if it.prod == 0 {
				add(it.la, "acc")
			} else {
				add(it.la, fmt.Sprintf("r%d", it.prod))
			}
		} else if t, ok := p.Terms[it.dot].(*lr1.Terminal); ok {
			add(t.Index, "s"+coreOf(st.trans[t]))
		}
	}
	return out
}

func realItems(s *lr1.ItemSet) map[rItem]bool {
	m := map[rItem]bool{}
	for _, it := range s.Items() {
		m[rItem{it.Prod, it.Dot, it.Lookahead}] = true
	}
	return m
}

// compareWithReference checks the generator's automaton against the reference
// LALR(1) automaton: same states (by LR(0) core), same items and lookaheads,
// same transitions, same candidate actions per (state, terminal).
// Grammars here carry no precedence, so resolveConflicts must not remove anything.
func compareWithReference(rep *report, name string, g *lr1.Grammar, t *lr1.ParserTable) (refConflict bool) {
	r := newRef(g)
	l := r.lalr()
	realByCore := map[string]*lr1.ItemSet{}
	for _, s := range t.States {
		ck := coreKey(realItems(s))
		if realByCore[ck] != nil {
			rep.fail("lr1.ConstructLALR/states-unique-per-core", name, "two states share the LR(0) core "+ck)
		}
		realByCore[ck] = s
	}
	if len(t.States) != len(l.states) {
		rep.fail("lr1.ConstructLALR/same-states-as-reference", name, fmt.Sprintf("generator has %d states, reference LALR(1) automaton has %d", len(t.States), len(l.states)))
	}
	if len(t.States) > 0 {
		if ck := coreKey(realItems(t.States[0])); ck != coreKey(l.states[0].items) {
			rep.fail("lr1.ConstructLALR/state0-is-start", name, "state 0 is not the closure of [S' -> .S, EOF]")
		}
	}
	coreOfRef := func(i int) string { return coreKey(l.states[i].items) }
	for ck, j := range l.byCore {
		rs := realByCore[ck]
		if rs == nil {
			rep.fail("lr1.ConstructLALR/same-states-as-reference", name, "reference state with core "+ck+" is missing")
			continue
		}
		ref := l.states[j]
		ri := realItems(rs)
		for it := range ref.items {
			if !ri[it] {
				rep.fail("lr1.Closure+ConstructLALR/lookaheads-complete", name, fmt.Sprintf("state I%d lacks item %v (core %s)", rs.Index, it, ck))
				break
			}
		}
		for it := range ri {
			if !ref.items[it] {
				rep.fail("lr1.Closure+ConstructLALR/lookaheads-justified", name, fmt.Sprintf("state I%d has unjustified item %v (core %s)", rs.Index, it, ck))
				break
			}
		}
		// transitions
		tm := t.Transitions(rs)
		inputs := tm.Inputs()
		if len(inputs) != len(ref.trans) {
			rep.fail("lr1.ConstructLALR/transitions", name, fmt.Sprintf("state I%d has %d transitions, reference has %d", rs.Index, len(inputs), len(ref.trans)))
		}
		for _, in := range inputs {
			to := tm.Get(in)
			rt, ok := ref.trans[in]
			if !ok || coreKey(realItems(to)) != coreOfRef(rt) {
				rep.fail("lr1.ConstructLALR/transitions", name, fmt.Sprintf("state I%d on %s goes to the wrong state", rs.Index, in.TermName()))
			}
		}
		// actions
		refActs := l.actionsOf(r, ref, coreOfRef)
		am := t.Actions(rs)
		seen := map[int]bool{}
		for _, term := range am.Terminals() {
			seen[term.Index] = true
			got := map[string]bool{}
			arr := am.Get(term)
			for _, a := range arr.Elements() {
				switch a.Type {
				case lr1.ActionShift:
					got["s"+coreKey(realItems(a.ShiftState))] = true
				case lr1.ActionReduce:
					for _, p := range a.Prods {
						got[fmt.Sprintf("r%d", p.Index)] = true
					}
				case lr1.ActionAccept:
					got["acc"] = true
				}
			}
			want := refActs[term.Index]
			if fmt.Sprint(keys(got)) != fmt.Sprint(keys(want)) {
				rep.fail("lr1.createActions/action-set-exact", name, fmt.Sprintf("state I%d on %s: generator %v, reference %v", rs.Index, term.Name, keys(got), keys(want)))
			}
			if len(want) > 1 {
				refConflict = true
			}
		}
		for ti, want := range refActs {
			if !seen[ti] {
				rep.fail("lr1.createActions/action-set-exact", name, fmt.Sprintf("state I%d lacks the actions %v on terminal #%d", rs.Index, keys(want), ti))
			}
			if len(want) > 1 {
				refConflict = true
			}
		}
	}
	return refConflict
}

func keys(m map[string]bool) []string {
	var ks []string
	for k := range m {
		ks = append(ks, k)
	}
	sort.Strings(ks)
	return ks
}

// ---- an LR driver over the generator's ParserTable -----------------------------------------

// lrAccepts runs the textbook shift/reduce loop on the real table (conflict-free).
// It returns (accepted, ok); ok=false when the step budget is exhausted or the
// table is malformed (missing goto, stack underflow).
func lrAccepts(t *lr1.ParserTable, w []int) (accepted bool, ok bool, why string) {
	g := t.Grammar
	stack := []*lr1.ItemSet{t.States[0]}
	pos := 0
	for steps := 0; steps < 10000; steps++ {
		la := 0 // EOF
		if pos < len(w) {
			la = w[pos]
		}
		acts := t.Actions(stack[len(stack)-1]).Get(g.Terminals[la])
		if acts.Len() == 0 {
			return false, true, ""
		}
		if acts.Len() != 1 {
			return false, false, "conflicting cell reached"
		}
		a := acts.Get(0)
		switch a.Type {
		case lr1.ActionAccept:
			return true, true, ""
		case lr1.ActionShift:
			stack = append(stack, a.ShiftState)
			pos++
		case lr1.ActionReduce:
			p := a.Prods[0]
			if len(p.Terms) >= len(stack) {
				return false, false, "stack underflow on reduce"
			}
			stack = stack[:len(stack)-len(p.Terms)]
			var to *lr1.ItemSet
			func() {
				defer func() {
					if r := recover(); r != nil {
						to = nil
					}
				}()
				to = t.Transitions(stack[len(stack)-1]).Get(p.Rule)
			}()
			if to == nil {
				return false, false, "missing goto after reduce"
			}
			stack = append(stack, to)
		}
	}
	return false, false, "step budget exhausted (driver loops)"
}

func allStrings(nT, maxLen int) [][]int {
	out := [][]int{{}}
	prev := [][]int{{}}
	for l := 1; l <= maxLen; l++ {
		var cur [][]int
		for _, p := range prev {
			for t := 0; t < nT; t++ {
				cur = append(cur, append(append([]int{}, p...), t+2)) // terminal indices start after EOF, ERROR
			}
		}
		out = append(out, cur...)
		prev = cur
	}
	return out
}

// lrConditions checks, on the generator's own automaton, the conditions the deductive
// proof of the runtime driver assumes about the tables (wfTables in the runtime
// contracts): with item(s,p,d) := "state s holds production p with the dot at d",
// I0 state 0 holds only dot-0 items; I1 a reduce by p in s implies item(s,p,|p|);
// I2 an item with a positive dot in the target of an edge has its predecessor in the
// source; I3 a dot-0 item of p != 0 implies a goto on p's rule; shift and goto targets
// are states of the table; accept occurs only on EOF.
func lrConditions(rep *report, name string, t *lr1.ParserTable) {
	g := t.Grammar
	has := func(s *lr1.ItemSet, p, d int) bool {
		for _, it := range s.Items() {
			if it.Prod == p && it.Dot == d {
				return true
			}
		}
		return false
	}
	inTable := map[*lr1.ItemSet]bool{}
	for i, s := range t.States {
		inTable[s] = true
		if s.Index != i {
			rep.fail("runtime-assumption/wfTables/state-index-is-position", name, fmt.Sprintf("States[%d].Index = %d", i, s.Index))
		}
	}
	for _, it := range t.States[0].Items() {
		if it.Dot != 0 {
			rep.fail("runtime-assumption/wfTables/I0", name, "state 0 holds an item with a positive dot")
		}
	}
	for _, s := range t.States {
		am := t.Actions(s)
		for _, term := range am.Terminals() {
			for _, a := range am.Get(term).Elements() {
				switch a.Type {
				case lr1.ActionReduce:
					for _, p := range a.Prods {
						if p.Index == 0 || !has(s, p.Index, len(p.Terms)) {
							rep.fail("runtime-assumption/wfTables/I1", name, fmt.Sprintf("I%d reduces by production %d without holding its completed item", s.Index, p.Index))
						}
					}
				case lr1.ActionShift:
					if !inTable[a.ShiftState] {
						rep.fail("runtime-assumption/wfTables/targets-are-states", name, fmt.Sprintf("I%d shifts to a state outside the table", s.Index))
					}
				case lr1.ActionAccept:
					if term.Index != 0 {
						rep.fail("runtime-assumption/wfTables/accept-only-on-EOF", name, fmt.Sprintf("I%d accepts on %s", s.Index, term.Name))
					}
				}
			}
		}
		tm := t.Transitions(s)
		for _, in := range tm.Inputs() {
			to := tm.Get(in)
			if !inTable[to] {
				rep.fail("runtime-assumption/wfTables/targets-are-states", name, fmt.Sprintf("I%d has a transition to a state outside the table", s.Index))
				continue
			}
			for _, it := range to.Items() {
				if it.Dot > 0 && !has(s, it.Prod, it.Dot-1) {
					rep.fail("runtime-assumption/wfTables/I2", name, fmt.Sprintf("I%d -> I%d on %s: item (%d,%d) has no predecessor in the source", s.Index, to.Index, in.TermName(), it.Prod, it.Dot))
				}
			}
		}
		for _, it := range s.Items() {
			if it.Dot == 0 && it.Prod != 0 {
				rule := g.Prods[it.Prod].Rule
				found := false
				for _, in := range tm.Inputs() {
					if in == lr1.Term(rule) {
						found = true
					}
				}
				if !found {
					rep.fail("runtime-assumption/wfTables/I3", name, fmt.Sprintf("I%d holds a dot-0 item of production %d but has no goto on %s", s.Index, it.Prod, rule.Name))
				}
			}
		}
	}
}

func constructSafely(g *lr1.Grammar) (t *lr1.ParserTable, panicked string) {
	defer func() {
		if r := recover(); r != nil {
			panicked = fmt.Sprint(r)
		}
	}()
	return lr1.ConstructLALR(g), ""
}

// TestLALR: C01 / C04 bounded stand-in for First, Closure, Goto, Next,
// ConstructLALR, createActions.
func TestLALR(t *testing.T) {
	maxP, maxRHS, maxLen := 4, 2, 5
	if thorough {
		maxP, maxLen = 5, 6
	}
	gs := enumGrammars(2, 2, maxP, maxRHS)
	rep := newReport("lalr-vs-reference")
	strs := allStrings(2, maxLen)
	parallel(2*len(gs), func(i2 int) {
		i, scheme := i2/2, i2%2
		sg := gs[i]
		name := sg.String()
		if scheme == 1 {
			name += " (rules named to sort before terminals, reversed)"
		}
		g, _, _ := sg.toLR1(scheme)
		tab, pan := constructSafely(g)
		if pan != "" {
			rep.count(true)
			rep.fail("lr1.ConstructLALR/no-panic", name, pan)
			return
		}
		refConflict := compareWithReference(rep, name, g, tab)
		lrConditions(rep, name, tab)
		rep.count(len(tab.States) > 2)
		if tab.HasConflicts != refConflict {
			rep.fail("lr1.resolveConflicts/conflict-verdict", name, fmt.Sprintf("HasConflicts=%v but the reference LALR(1) automaton has conflicts=%v", tab.HasConflicts, refConflict))
		}
		if tab.HasConflicts || refConflict {
			return
		}
		ref := newRef(g)
		for _, w := range strs {
			acc, ok, why := lrAccepts(tab, w)
			if !ok {
				rep.fail("runtime-contract/tables-drive-to-a-verdict", name+" input="+joinInts(w), why)
				break
			}
			if want := ref.earley(w); acc != want {
				rep.fail("C01/accepts-exactly-L(G)", name+" input="+joinInts(w), fmt.Sprintf("LR driver over the generated table says %v, Earley says %v", acc, want))
				break
			}
		}
		if i%997 == 0 {
			rep.sample(name)
		}
	})
	rep.done(t, true, fmt.Sprintf("all grammars with 2 terminals, 2 rules, <=%d productions, rhs <=%d, each under two symbol-naming orders; all token strings of length <=%d", maxP, maxRHS, maxLen))
}
