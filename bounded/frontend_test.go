package zzverif

import (
	"fmt"
	"math/rand"
	"regexp"
	"strconv"
	"strings"
	"testing"
	"time"
)

// ---- C17: ill-formed specifications are rejected at the right place ------------------------------

// A base specification is a list of declarations; each declaration occupies one
// or more whole lines, so "the diagnostic names a position inside the
// declaration" is checked by line number.
type decl struct {
	text string
}

func specText(decls []decl) (string, [][2]int) {
	var sb strings.Builder
	var lines [][2]int
	line := 1
	for _, d := range decls {
		n := strings.Count(d.text, "\n") + 1
		lines = append(lines, [2]int{line, line + n - 1})
		sb.WriteString(d.text)
		sb.WriteString("\n")
		line += n
	}
	return sb.String(), lines
}

var baseSpecs = [][]decl{
	{
		{"@lexer"},
		{"PLUS = '+'"},
		{"NUM = [0-9]+"},
		{"@macro LETTER = [a-z]"},
		{"ID = LETTER (LETTER | [0-9])*"},
		{"@frag [ \\t]+ @discard"},
		{"@parser"},
		{"@start s = e"},
		{"e = e '+' t | t"},
		{"t = NUM | ID"},
	},
	{
		{"@lexer"},
		{"QUOTE = '\"' @push_mode(Str)"},
		{"@mode Str {\n  @frag [a-z]+\n  ENDQ = '\"' @pop_mode\n}"},
		{"A = 'a'"},
		{"@frag 'x' @emit(A)"},
		{"@parser"},
		{"@start s = QUOTE ENDQ A*"},
	},
	{
		{"@lexer"},
		{"@external EXT"},
		{"COMMA = ','"},
		{"W = [a-z]+"},
		{"@parser"},
		{"@start s = @list(item, ',')? W"},
		{"item = W+ | '@x'"},
	},
}

func init() {
	// the third base uses a literal that is not an alias of any token; drop it to stay well formed
	baseSpecs[2][6] = decl{"item = W+"}
}

type fault struct {
	name string
	// apply returns the mutated declarations and the index of the declaration at fault
	// (-1 when the fault is global, e.g. a missing @start).
	apply func(ds []decl) ([]decl, int, bool)
}

func replaceDecl(ds []decl, i int, text string) []decl {
	out := append([]decl{}, ds...)
	out[i] = decl{text}
	return out
}

func insertAfter(ds []decl, i int, text string) []decl {
	out := append([]decl{}, ds[:i+1]...)
	out = append(out, decl{text})
	out = append(out, ds[i+1:]...)
	return out
}

func findDecl(ds []decl, prefix string) int {
	for i, d := range ds {
		if strings.HasPrefix(d.text, prefix) {
			return i
		}
	}
	return -1
}

func lastLexerDecl(ds []decl) int {
	return findDecl(ds, "@parser") - 1
}

func faults() []fault {
	addLexer := func(name, text string) fault {
		return fault{name, func(ds []decl) ([]decl, int, bool) {
			i := lastLexerDecl(ds)
			return insertAfter(ds, i, text), i + 1, true
		}}
	}
	addParser := func(name, text string) fault {
		return fault{name, func(ds []decl) ([]decl, int, bool) {
			return append(append([]decl{}, ds...), decl{text}), len(ds), true
		}}
	}
	return []fault{
		addLexer("token-redefined", "NUM = 'n'\nNUM = 'm'"),
		addLexer("token-vs-macro-name", "DUP = 'n'\n@macro DUP = 'm'"),
		addLexer("token-vs-mode-name", "Dup = 'n'"), // lowercase letters: bad token name
		addLexer("token-name-trailing-underscore", "BAD_ = 'n'"),
		addLexer("token-name-double-underscore", "BA__D = 'n'"),
		addLexer("token-name-reserved-eof", "EOF = 'n'"),
		addLexer("token-name-reserved-error", "ERROR = 'n'"),
		addLexer("undefined-macro-or-token-ref", "REF = NOSUCH 'n'"),
		addLexer("undefined-mode", "PM = 'n' @push_mode(NoSuchMode)"),
		addLexer("push-mode-names-a-token", "PMTARGET = 'pq'\nPMX = 'n' @push_mode(PMTARGET)"),
		addLexer("push-mode-names-a-macro", "@macro PMMAC = 'pq'\nPMY = 'n' PMMAC @push_mode(PMMAC)"),
		addLexer("push-mode-names-a-parser-rule", "PMZ = 'n' @push_mode(s)"),
		addLexer("emit-names-a-macro", "@macro EMMAC = 'pq'\n@frag 'n' EMMAC @emit(EMMAC)"),
		addLexer("emit-names-a-mode", "EMPUSH = 'pq' @push_mode(EmMode)\n@mode EmMode {\n  EMPOP = 'qp' @pop_mode\n  @frag 'n' @emit(EmMode)\n}"),
		addLexer("emit-undefined", "@frag 'n' @emit(NOSUCH)"),
		addLexer("macro-cycle", "@macro MA = MB 'n'\n@macro MB = MA 'm'\nUSEMA = MA"),
		addLexer("macro-self-cycle", "@macro MS = MS 'n'\nUSEMS = MS 'q'"),
		addLexer("discard-on-token", "DT = 'n' @discard"),
		addLexer("emit-on-token", "ET = 'n' @emit(ET)"),
		addLexer("two-discards-on-frag", "@frag 'n' @discard @discard"),
		addLexer("discard-and-emit-on-frag", "TT = 'q'\n@frag 'n' @discard @emit(TT)"),
		addLexer("empty-literal", "EL = ''"),
		addLexer("class-range-reversed", "RR = [z-a]"),
		addLexer("mode-redefined", "@mode MM {\n  X1 = 'n'\n}\n@mode MM {\n  X2 = 'm'\n}"),
		addParser("rule-redefined", "rr = 'nope'\nrr = 'nope'"),
		addParser("undefined-rule-or-token", "ur = nosuchrule"),
		addParser("undefined-alias", "ua = 'no-such-literal'"),
		addParser("second-start", "@start s2 = s2"),
		{"no-start", func(ds []decl) ([]decl, int, bool) {
			i := findDecl(ds, "@start ")
			if i < 0 {
				return nil, 0, false
			}
			return replaceDecl(ds, i, strings.TrimPrefix(ds[i].text, "@start ")), -1, true
		}},
		{"ambiguous-alias", func(ds []decl) ([]decl, int, bool) {
			i := lastLexerDecl(ds)
			out := insertAfter(ds, i, "AMB1 = '%%'\nAMB2 = '%%'")
			out = append(out, decl{"amb = '%%'"})
			return out, len(out) - 1, true
		}},
		{"ambiguous-alias-three-modes", func(ds []decl) ([]decl, int, bool) {
			i := lastLexerDecl(ds)
			out := insertAfter(ds, i, "AMB1 = '%%' @push_mode(AmbM1)\n@mode AmbM1 {\n  AMB2 = '%%' @push_mode(AmbM2)\n}\n@mode AmbM2 {\n  AMB3 = '%%' @pop_mode\n}")
			out = append(out, decl{"amb = '%%'"})
			return out, len(out) - 1, true
		}},
		{"list-element-not-simple", func(ds []decl) ([]decl, int, bool) {
			out := append(append([]decl{}, ds...), decl{"le = @list(s*, s)"})
			return out, len(out) - 1, true
		}},
	}
}

var diagLine = regexp.MustCompile(`(?m)^f(\d+)\.lox:(\d+):(\d+): `)

func TestIllFormedSpecs(t *testing.T) {
	rep := newReport("spec-wellformedness")
	for bi, base := range baseSpecs {
		text, _ := specText(base)
		b := buildSpec([]string{text}, true)
		rep.count(true)
		if b.panicked != "" {
			rep.fail("C12/no-panic", fmt.Sprintf("base#%d", bi), b.panicked)
			continue
		}
		if !b.ok {
			rep.fail("C17/well-formed-spec-accepted", fmt.Sprintf("base#%d", bi), b.diag)
			continue
		}
		for _, f := range faults() {
			ds, at, ok := f.apply(base)
			if !ok {
				continue
			}
			text, lines := specText(ds)
			name := fmt.Sprintf("base#%d+%s", bi, f.name)
			mb := buildSpec([]string{text}, true)
			rep.count(true)
			if mb.panicked != "" {
				rep.fail("C12/no-panic", name, mb.panicked)
				continue
			}
			if mb.ok && (mb.table == nil || !mb.table.HasConflicts) {
				rep.fail("C17/ill-formed-spec-rejected/"+f.name, name, "accepted without a diagnostic")
				continue
			}
			if strings.TrimSpace(mb.diag) == "" && mb.ok {
				continue // rejected through conflicts only
			}
			if strings.TrimSpace(mb.diag) == "" {
				rep.fail("C17/rejection-has-a-diagnostic/"+f.name, name, "rejected without any diagnostic text")
				continue
			}
			if at >= 0 {
				m := diagLine.FindStringSubmatch(mb.diag)
				if m == nil {
					rep.fail("C17/diagnostic-position-inside-declaration/"+f.name, name, "first diagnostic carries no position: "+firstLine(mb.diag))
					continue
				}
				ln, _ := strconv.Atoi(m[2])
				if ln < lines[at][0] || ln > lines[at][1] {
					rep.fail("C17/diagnostic-position-inside-declaration/"+f.name, name, fmt.Sprintf("first diagnostic is at line %d, the faulty declaration spans lines %d-%d: %s", ln, lines[at][0], lines[at][1], firstLine(mb.diag)))
				}
			}
		}
	}
	nPlaced := placedFaults(rep)
	rep.sample("base#0+token-redefined")
	rep.done(t, true, fmt.Sprintf("%d well-formed base specifications x %d single-fault mutations; %d placements of a faulty lexer term (3 faulty terms x expression contexts x token/fragment/macro x top level/inside a mode/second file)", len(baseSpecs), len(faults()), nPlaced))
}

// placedFaults: one faulty lexer term (reversed class range, empty literal, undefined
// reference) in every expression context the grammar of lexer expressions offers, in a
// token, a fragment and a macro, at top level, inside a mode and in a second file. Each
// variant must be rejected with a diagnostic positioned in the right file on a line of
// the faulty declaration; the same variant with a well-formed term must be accepted.
func placedFaults(rep *report) int {
	type term struct {
		name, bad, good string
		class           bool
	}
	terms := []term{
		{"class-range-reversed", "[z-a]", "[a-z]", true},
		{"empty-literal", "''", "'v'", false},
		{"undefined-macro-or-token-ref", "NOSUCH", "'w'", false},
	}
	type ctx struct {
		name, tmpl string
		class      bool
	}
	ctxs := []ctx{
		{"bare", "'k' %s", false}, {"group", "'k' (%s)", false}, {"alt", "'k' | 'j' %s", false}, {"star", "'k' %s*", false},
		{"nongreedy", "'k' %s+? 'e'", false}, {"nested-group-alt", "'k' (('j' | %s) 'e')?", false},
		{"diff-right", "'k' [b-y]-%s", true}, {"diff-left", "'k' %s-[b]", true}, {"negated", "'k' ~%s", true},
		{"diff-right-negated", "'k' [b-y]-~%s", true}, {"diff-left-negated", "'k' ~%s-[b]", true},
	}
	kinds := []struct{ name, tmpl string }{
		{"token", "FT = %s"},
		{"frag", "@frag %s @discard"},
		{"macro", "@macro FMAC = %s\nFT = FMAC 'z'"},
	}
	base := "@lexer\nPLUS = '+'\nNUM = [0-9]+\n"
	tail := "@parser\n@start s = NUM\n"
	n := 0
	for _, tm := range terms {
		for _, cx := range ctxs {
			if cx.class && !tm.class {
				continue
			}
			for _, kd := range kinds {
				for pl := 0; pl < 3; pl++ {
					build := func(t string) (files []string, file, lo, hi int) {
						d := fmt.Sprintf(kd.tmpl, fmt.Sprintf(cx.tmpl, t))
						nl := strings.Count(d, "\n") + 1
						switch pl {
						case 0: // top level
							return []string{base + d + "\n" + tail}, 0, 4, 3 + nl
						case 1: // inside a mode
							ind := "  " + strings.ReplaceAll(d, "\n", "\n  ")
							return []string{base + "PMF = 'pmf' @push_mode(FMode)\n@mode FMode {\n" + ind + "\n  ENDF = 'endf' @pop_mode\n}\n" + tail}, 0, 6, 5 + nl
						default: // second file
							return []string{base + tail, "@lexer\n" + d + "\n"}, 1, 2, 1 + nl
						}
					}
					name := fmt.Sprintf("%s/%s in %s, placement %s", tm.name, cx.name, kd.name, []string{"top-level", "inside-mode", "second-file"}[pl])
					n++
					rep.count(true)
					gf, _, _, _ := build(tm.good)
					gb := buildSpec(gf, true)
					if gb.panicked != "" {
						rep.fail("C12/no-panic", name+" (well-formed variant)", gb.panicked)
						continue
					}
					if !gb.ok {
						rep.fail("C17/well-formed-spec-accepted", name+" (well-formed variant): "+strings.Join(gf, "\n--\n"), firstLine(gb.diag))
						continue
					}
					bf, file, lo, hi := build(tm.bad)
					bb := buildSpec(bf, true)
					if bb.panicked != "" {
						rep.fail("C12/no-panic", name, bb.panicked)
						continue
					}
					if bb.ok {
						rep.fail("C17/ill-formed-spec-rejected/"+tm.name, name+": "+strings.Join(bf, "\n--\n"), "accepted without a diagnostic")
						continue
					}
					m := diagLine.FindStringSubmatch(bb.diag)
					if m == nil {
						rep.fail("C17/diagnostic-position-inside-declaration/"+tm.name, name, "first diagnostic carries no position: "+firstLine(bb.diag))
						continue
					}
					fi, _ := strconv.Atoi(m[1])
					ln, _ := strconv.Atoi(m[2])
					if fi != file || ln < lo || ln > hi {
						rep.fail("C17/diagnostic-position-inside-declaration/"+tm.name, name, fmt.Sprintf("first diagnostic is at f%d.lox:%d, the faulty declaration is in f%d.lox lines %d-%d: %s", fi, ln, file, lo, hi, firstLine(bb.diag)))
					}
				}
			}
		}
	}
	return n
}

func firstLine(s string) string {
	if i := strings.IndexByte(s, '\n'); i >= 0 {
		return s[:i]
	}
	return s
}

// ---- C12: the front end never panics or hangs ---------------------------------------------------------

var soupWords = []string{
	"@lexer", "@parser", "@start", "@frag", "@macro", "@mode", "@discard", "@emit", "@push_mode", "@pop_mode",
	"@left", "@right", "@list", "@error", "@empty", "@external", "@frog", "A", "B", "Ab", "a", "b", "s",
	"=", "|", "(", ")", "{", "}", ",", "~", "-", ".", "?", "*", "*?", "+", "+?", "*!", "\n", "\n", "\n", " ", "\\", "\\\n",
	"'a'", "'ab'", "''", "'\\n'", "'\\x41'", "'\\u0041'", "'\\q'", "'", "[a-z]", "[z-a]", "[\\q]", "[\\", "[a", "[-]", "[a-]", "[\\-]", "[\\u00e9]", "[\\U0010FFFF]", "~[a]", "[a]-[b]",
	"0", "1", "(0)", "(1)", "(2)", "(99999999999999999999)", "é", "\x00", "\xff", "//c\n", "// c",
}

func TestFrontEndTotal(t *testing.T) {
	rep := newReport("frontend-never-crashes")
	n := 20000
	if thorough {
		n = 400000
	}
	rnd := rand.New(rand.NewSource(seed()))
	type job struct{ files []string }
	var jobs []job
	// structured token soup
	for i := 0; i < n; i++ {
		var sb strings.Builder
		if rnd.Intn(3) > 0 {
			sb.WriteString([]string{"@lexer\n", "@parser\n", "@lexer\nA = 'a'\n@parser\n"}[rnd.Intn(3)])
		}
		k := 1 + rnd.Intn(14)
		for j := 0; j < k; j++ {
			sb.WriteString(soupWords[rnd.Intn(len(soupWords))])
			if rnd.Intn(3) == 0 {
				sb.WriteString(" ")
			}
		}
		sb.WriteString("\n")
		jobs = append(jobs, job{[]string{sb.String()}})
	}
	// the specific shapes the front-end actions assume their lexer excluded
	for _, s := range []string{
		"@lexer\nQ = [\\q]\n", "@lexer\nQ = [\\]\n", "@lexer\nQ = [\\", "@lexer\nQ = '\\",
		"@parser\n@start s = s 'x' s @left(0)\n", "@parser\n@start s = s 'x' s @left(99999999999999999999)\n",
		"@parser\n@start s = s 'x' s @right(0)\n", "@lexer\nX = 'x'\n@parser\n@start s = X s @left(1) | X\n",
		"@lexer\nA = 'a'*\n", "@lexer\n@frag 'a'?\n", "@lexer\nA = ('a' | 'b'?)\n",
		"@lexer\nA = [a-a]\nB = ~[\\u0000-\\U0010FFFF]\n", "@lexer\nB = [a]-[a]\n",
	} {
		jobs = append(jobs, job{[]string{s}})
	}
	// grammar-directed shapes: every parser term form under every cardinality in every
	// position of a production, and every lexer term form under every cardinality with
	// every action list, as token, fragment and macro
	nDirected := 0
	{
		pterms := []string{"X", "'x'", "r", "@list(X, C)", "@list(r, C)", "@list(X, ',')", "@list(X, r)", "@error", "@list(@error, C)",
			"@list(@list(X, C), C)", "@list(X*, C)", "@list(X, C*)", "@list(X?, C)", "nosuch", "'nolit'", "s"}
		cards := []string{"", "?", "*", "+", "*!", "??", "*!?", "+*"}
		for _, t := range pterms {
			for _, c := range cards {
				for _, shape := range []string{"@start s = %s\n", "@start s = X %s\n", "@start s = %s X\n", "@start s = X | %s\n", "@start s = X %s X @left(1)\n", "@start s = q\nq = %s | q C\n"} {
					spec := "@lexer\nX = 'x'\nC = ','\n@parser\n" + fmt.Sprintf(shape, t+c) + "r = X\n"
					jobs = append(jobs, job{[]string{spec}})
					nDirected++
				}
			}
		}
		lterms := []string{"'a'", "[a-z]", "~[a]", "[a-z]-[c]", ".", "MAC", "TOK", "('a' | 'b')", "('a' | )", "''", "[z-a]", "NOSUCH", "'a' 'b'", "\"a\"", "'\\u00e9'", "[\\u0000-\\U0010FFFF]"}
		lcards := []string{"", "?", "*", "+", "*?", "+?", "??", "*+"}
		acts := []string{"", " @discard", " @emit(TOK)", " @push_mode(M)", " @pop_mode", " @pop_mode @push_mode(M)", " @emit(TOK) @discard", " @push_mode(NoMode)", " @emit(NOSUCH)", " @discard @discard"}
		for _, t := range lterms {
			for _, c := range lcards {
				for ai, a := range acts {
					for k, kind := range []string{"ZT = 'k' %s%s\n", "@frag 'k' %s%s\n", "@macro ZM = 'k' %s\nZU = ZM%s\n", "ZT = %s%s\n"} {
						if (ai+k)%2 == 1 && ai > 1 {
							continue // thin the product: every action list still meets every kind through half of the terms
						}
						spec := "@lexer\nTOK = 't'\n@macro MAC = [m-n]\n" + fmt.Sprintf(kind, t+c, a) + "@mode M {\n  IN = 'i' @pop_mode\n}\n@parser\n@start s = TOK\n"
						jobs = append(jobs, job{[]string{spec}})
						nDirected++
					}
				}
			}
		}
	}
	// two files
	jobs = append(jobs,
		job{[]string{"@lexer\nP = '+'\n", "@lexer\nQ = '+'\n"}},
		job{[]string{"@lexer\nP = '+'\n@parser\n@start s = '+'\n", "@lexer\nQ = '+'\n"}},
		job{[]string{"@lexer\nP = 'a'\n", "@lexer\n@frag 'a' @discard\n"}},
	)
	parallel(len(jobs), func(i int) {
		files := jobs[i].files
		name := strings.Join(files, "<<FILE>>")
		done := make(chan built, 1)
		go func() { done <- buildSpec(files, true) }()
		select {
		case b := <-done:
			rep.count(b.ok)
			if b.panicked != "" {
				rep.fail("C12/no-panic/"+panicClass(b.panicked), name, b.panicked)
				return
			}
			if !b.ok && strings.TrimSpace(b.diag) == "" {
				rep.fail("C12/failure-has-a-diagnostic", name, "the specification was rejected without any diagnostic")
			}
		case <-time.After(20 * time.Second):
			rep.count(true)
			rep.fail("C12/terminates", name, "no verdict within 20 s")
		}
	})
	rep.sample(jobs[0].files[0])
	rep.done(t, false, fmt.Sprintf("%d seeded pseudo-random token sequences over %d lexical shapes (incl. malformed escapes, reversed ranges, huge numbers, bytes 0x00/0xff), 13 hand-listed edge shapes, %d grammar-directed shapes (parser term forms x cardinalities x positions; lexer term forms x cardinalities x action lists x token/fragment/macro), 3 two-file specifications", n, len(soupWords), nDirected))
}

// panicClass gives a stable short name to a panic so that distinct defects are distinct obligations.
func panicClass(p string) string {
	switch {
	case strings.Contains(p, "index out of range"), strings.Contains(p, "slice bounds out of range"):
		return "index-out-of-range"
	case strings.Contains(p, "nil pointer"):
		return "nil-dereference"
	case strings.Contains(p, "not-reached"), strings.Contains(p, "not reached"), strings.Contains(p, "unreachable"):
		return "not-reached"
	case strings.Contains(p, "assertion failed"):
		return "assertion"
	}
	return "other"
}
