// Package zzverif is the bounded stand-in harness of /verif. It is injected
// into the lox module with `go test -overlay` as the virtual package
// internal/zzverif (nothing is written to the repository) and checks, by
// exhaustive enumeration up to a stated bound, contracts of functions that the
// deductive tier cannot reach yet. Results are labelled "bounded".
package zzverif

import (
	"fmt"
	"os"
	"strconv"
	"strings"
	"sync"
	"testing"
)

var thorough = os.Getenv("VERIF_TIER") == "thorough"

func seed() int64 {
	if s := os.Getenv("VERIF_SEED"); s != "" {
		if v, err := strconv.ParseInt(s, 10, 64); err == nil {
			return v
		}
	}
	return 1
}

// report collects the outcome of one bounded check and prints it in the format
// the checker parses.
type report struct {
	mu         sync.Mutex
	name       string
	cases      int
	nontrivial int
	witnesses  []string
	perObl     map[string]int
	samples    []string
	known      map[string]bool
}

func newReport(name string) *report { return &report{name: name} }

func (r *report) count(nontrivial bool) {
	r.mu.Lock()
	r.cases++
	if nontrivial {
		r.nontrivial++
	}
	r.mu.Unlock()
}

func (r *report) sample(s string) {
	r.mu.Lock()
	if len(r.samples) < 3 {
		r.samples = append(r.samples, s)
	}
	r.mu.Unlock()
}

// fail records a violated contract clause together with the input that violates it.
func (r *report) fail(obligation, input, detail string) {
	r.mu.Lock()
	defer r.mu.Unlock()
	if r.perObl == nil {
		r.perObl = map[string]int{}
	}
	r.perObl[obligation]++
	if r.perObl[obligation] <= 3 && len(r.witnesses) < 60 {
		r.witnesses = append(r.witnesses, fmt.Sprintf("WITNESS obligation=%s input=%s detail=%s", obligation, strconv.Quote(input), strconv.Quote(detail)))
	}
}

func (r *report) done(t *testing.T, exhaustive bool, bound string) {
	for _, s := range r.samples {
		fmt.Printf("SAMPLE check=%s %s\n", r.name, strconv.Quote(s))
	}
	for _, w := range r.witnesses {
		fmt.Printf("%s check=%s\n", w, r.name)
	}
	fmt.Printf("BOUNDED check=%s cases=%d nontrivial=%d exhaustive=%v violations=%d bound=%s\n", r.name, r.cases, r.nontrivial, exhaustive, len(r.witnesses), strconv.Quote(bound))
	if len(r.witnesses) > 0 {
		t.Fail()
	}
}

func joinInts(xs []int) string {
	var s []string
	for _, x := range xs {
		s = append(s, strconv.Itoa(x))
	}
	return strings.Join(s, " ")
}

// parallel runs f over 0..n-1 on all cores.
func parallel(n int, f func(i int)) {
	var wg sync.WaitGroup
	workers := 16
	ch := make(chan int, 256)
	for w := 0; w < workers; w++ {
		wg.Add(1)
		go func() {
			defer wg.Done()
			for i := range ch {
				f(i)
			}
		}()
	}
	for i := 0; i < n; i++ {
		ch <- i
	}
	close(ch)
	wg.Wait()
}
