package zzverif

import (
	"fmt"
	"strings"
	"testing"

	"github.com/dcaiafa/lox/internal/parsergen/lr1"
)

// Bounded stand-in for C05: the grouping that the tables built from @left/@right(n)
// induce. For every operator table in the bound the specification text goes through
// the real front end (parser.Parse, ast.Analyze, lr1.ConstructLALR); a textbook LR
// driver over the resulting table rebuilds the tree of every operator sequence, and
// the tree is compared with the one a precedence-climbing parser builds.

type opDef struct {
	tok   string // token name: A, B, C
	level int
	right bool
	text  string // how the level is written (decimal, possibly with leading zeros)
}

type opTable struct {
	ops   []opDef
	shape int // 0: one production per operator; 1: same, operators in reverse textual order; 2: with a parenthesised atom; 3: a two-token operator; 4: with an index-like atom N LB e RB (two-token prefix, a closing token that follows e nowhere else)
}

func (t opTable) String() string {
	var s []string
	for _, o := range t.ops {
		a := "left"
		if o.right {
			a = "right"
		}
		s = append(s, fmt.Sprintf("%s@%s(%d)", o.tok, a, o.level))
	}
	return fmt.Sprintf("shape%d %s", t.shape, strings.Join(s, " "))
}

func (t opTable) loxText() string {
	var b strings.Builder
	if t.shape == 4 {
		// brackets declared before the operators: the operators get the highest terminal numbers
		b.WriteString("@lexer\nN = 'n'\nLP = '('\nRP = ')'\nLB = '['\nRB = ']'\nA = 'a'\nB = 'b'\nC = 'c'\n@parser\n@start s = e\ne = ")
	} else {
		b.WriteString("@lexer\nN = 'n'\nA = 'a'\nB = 'b'\nC = 'c'\nLP = '('\nRP = ')'\nLB = '['\nRB = ']'\n@parser\n@start s = e\ne = ")
	}
	var alts []string
	for _, o := range t.ops {
		a := "@left"
		if o.right {
			a = "@right"
		}
		txt := o.text
		if txt == "" {
			txt = fmt.Sprint(o.level)
		}
		alts = append(alts, fmt.Sprintf("e %s e %s(%s)", o.tok, a, txt))
		if t.shape == 3 && o.tok == "A" {
			// a second operator of the same level whose spelling starts with the same token ("is" / "is not")
			alts = append(alts, fmt.Sprintf("e A C e %s(%s)", a, txt))
		}
	}
	if t.shape == 1 {
		for i, j := 0, len(alts)-1; i < j; i, j = i+1, j-1 {
			alts[i], alts[j] = alts[j], alts[i]
		}
		alts = append([]string{"N"}, alts...)
	} else if t.shape == 4 {
		alts = append(alts, "LP e RP", "N LB e RB", "N")
	} else {
		alts = append(alts, "N")
	}
	if t.shape == 2 {
		alts = append(alts, "LP e RP")
	}
	b.WriteString(strings.Join(alts, "\n  | "))
	b.WriteString("\n")
	return b.String()
}

func enumOpTables() []opTable {
	var out []opTable
	toks := []string{"A", "B", "C"}
	maxK := 3
	for k := 1; k <= maxK; k++ {
		// levels 1..k for each op, associativity per level
		nLv := 1
		for i := 0; i < k; i++ {
			nLv *= k
		}
		for lv := 0; lv < nLv; lv++ {
			levels := make([]int, k)
			x := lv
			used := map[int]bool{}
			for i := range levels {
				levels[i] = x%k + 1
				used[levels[i]] = true
				x /= k
			}
			for am := 0; am < 1<<k; am++ { // associativity of level i+1 = bit i
				skip := false
				for l := 1; l <= k; l++ {
					if !used[l] && am&(1<<(l-1)) != 0 {
						skip = true // unused level: only count it once
					}
				}
				if skip {
					continue
				}
				var ops []opDef
				for i := 0; i < k; i++ {
					od := opDef{tok: toks[i], level: levels[i] * levelScale(lv), right: am&(1<<(levels[i]-1)) != 0}
					if lv%4 == 3 {
						// levels 9, 10, 11 written "9", "010", "0011": decimal whatever the zeros
						od.level = 8 + levels[i]
						od.text = []string{"9", "010", "0011"}[levels[i]-1]
					}
					ops = append(ops, od)
				}
				for shape := 0; shape < 5; shape++ {
					if shape == 3 {
						hasB := false
						for _, o := range ops {
							hasB = hasB || o.tok == "C"
						}
						if hasB {
							continue // "A C" as an operator needs C not to be one itself
						}
					}
					out = append(out, opTable{ops: ops, shape: shape})
				}
			}
		}
	}
	return out
}

// levelScale spreads the precedence numbers (1,2,3 / 10,20,30 / 7,14,21) so that nothing
// depends on the levels being consecutive.
func levelScale(i int) int { return []int{1, 10, 7}[i%3] }

// climb builds the reference tree: higher level binds tighter; equal level groups by
// the level's associativity.
type climbTok struct {
	kind string // n op ( )
	op   *opDef
	text string
}

type climber struct {
	toks []climbTok
	pos  int
}

func (c *climber) primary() string {
	t := c.toks[c.pos]
	c.pos++
	if t.kind == "(" {
		inner := c.expr(0)
		c.pos++ // )
		if t.text == "N LB" {
			return "(N LB " + inner + " RB)"
		}
		return "(LP " + inner + " RP)"
	}
	return "N"
}

func (c *climber) expr(minLevel int) string {
	lhs := c.primary()
	for c.pos < len(c.toks) && c.toks[c.pos].kind == "op" && c.toks[c.pos].op.level >= minLevel {
		op := c.toks[c.pos].op
		c.pos++
		next := op.level + 1
		if op.right {
			next = op.level
		}
		rhs := c.expr(next)
		lhs = "(" + lhs + " " + op.tok + " " + rhs + ")"
	}
	return lhs
}

// lrTree runs the shift/reduce loop on the real table and rebuilds the tree.
func lrTree(t *lr1.ParserTable, w []*lr1.Terminal) (tree string, why string) {
	g := t.Grammar
	type entry struct {
		st   *lr1.ItemSet
		tree string
	}
	stack := []entry{{st: t.States[0]}}
	pos := 0
	for steps := 0; steps < 10000; steps++ {
		la := g.Terminals[0]
		if pos < len(w) {
			la = w[pos]
		}
		acts := t.Actions(stack[len(stack)-1].st).Get(la)
		if acts.Len() == 0 {
			return "", fmt.Sprintf("syntax error at token %d", pos)
		}
		if acts.Len() != 1 {
			return "", "conflicting cell reached"
		}
		a := acts.Get(0)
		switch a.Type {
		case lr1.ActionAccept:
			return stack[len(stack)-1].tree, ""
		case lr1.ActionShift:
			stack = append(stack, entry{st: a.ShiftState, tree: la.Name})
			pos++
		case lr1.ActionReduce:
			p := a.Prods[0]
			n := len(p.Terms)
			if n >= len(stack) {
				return "", "stack underflow on reduce"
			}
			var kids []string
			for _, e := range stack[len(stack)-n:] {
				kids = append(kids, e.tree)
			}
			stack = stack[:len(stack)-n]
			tr := "(" + strings.Join(kids, " ") + ")"
			if n == 1 {
				tr = kids[0]
			}
			var to *lr1.ItemSet
			func() {
				defer func() { recover() }()
				to = t.Transitions(stack[len(stack)-1].st).Get(p.Rule)
			}()
			if to == nil {
				return "", "missing goto after reduce"
			}
			stack = append(stack, entry{st: to, tree: tr})
		}
	}
	return "", "step budget exhausted"
}

func TestOperatorGrouping(t *testing.T) {
	rep := newReport("operator-grouping")
	tables := enumOpTables()
	maxOps := 4
	if thorough {
		maxOps = 5
	}
	parallel(len(tables), func(i int) {
		tab := tables[i]
		name := tab.String()
		b := buildSpec([]string{tab.loxText()}, true)
		if b.panicked != "" {
			rep.count(true)
			rep.fail("C05/operator-table-accepted", name, "panic: "+b.panicked)
			return
		}
		if !b.ok {
			rep.count(true)
			rep.fail("C05/operator-table-accepted", name, "rejected: "+firstLine(b.diag))
			return
		}
		if b.table.HasConflicts {
			rep.count(true)
			rep.fail("C05/operator-table-accepted", name, "every alternative carries an explicit level, yet conflicts are reported")
			return
		}
		term := map[string]*lr1.Terminal{}
		for _, tm := range b.table.Grammar.Terminals {
			term[tm.Name] = tm
		}
		ops := map[string]*opDef{}
		opNames := []string{}
		for k := range tab.ops {
			ops[tab.ops[k].tok] = &tab.ops[k]
			opNames = append(opNames, tab.ops[k].tok)
		}
		if tab.shape == 3 {
			ab := *ops["A"]
			ab.tok = "A C"
			ops["A C"] = &ab
			opNames = append(opNames, "A C")
		}
		// every operator sequence of length 1..maxOps between operands; with shape 2
		// additionally every way of parenthesising one contiguous sub-expression
		var run func(seq []string)
		check := func(toks []climbTok) {
			var w []*lr1.Terminal
			var text []string
			for _, ct := range toks {
				for _, name := range strings.Fields(ct.text) {
					w = append(w, term[name])
				}
				text = append(text, ct.text)
			}
			c := &climber{toks: toks}
			want := c.expr(0)
			got, why := lrTree(b.table, w)
			// Inputs in which two operators of one @right level meet are reported under
			// their own obligation: on the pinned tree that decision always goes to the
			// reduce (recorded finding), and it must not hide a different violation.
			obl := "C05/groups-as-precedence-climbing"
			seen := map[int]int{}
			meet := false
			for _, ct := range toks {
				if ct.kind == "op" && ct.op.right {
					seen[ct.op.level]++
					meet = meet || seen[ct.op.level] == 2
				}
			}
			if meet {
				obl += "/equal-level-right-associative"
			}
			rep.count(len(toks) >= 5)
			if why != "" {
				rep.fail(obl, name+" input="+strings.Join(text, " "), "the table does not parse the expression: "+why)
			} else if got != want {
				rep.fail(obl, name+" input="+strings.Join(text, " "), fmt.Sprintf("table groups %s, precedence climbing groups %s", got, want))
			}
		}
		run = func(seq []string) {
			if len(seq) > 0 {
				toks := []climbTok{{kind: "n", text: "N"}}
				for _, o := range seq {
					toks = append(toks, climbTok{kind: "op", op: ops[o], text: o}, climbTok{kind: "n", text: "N"})
				}
				check(toks)
				if (tab.shape == 2 || tab.shape == 4) && len(seq) <= 3 {
					// parenthesise operands lo..hi (0-based operand indices)
					for lo := 0; lo <= len(seq); lo++ {
						for hi := lo + 1; hi <= len(seq); hi++ {
							var pt []climbTok
							for k := 0; k <= len(seq); k++ {
								if k > 0 {
									pt = append(pt, climbTok{kind: "op", op: ops[seq[k-1]], text: seq[k-1]})
								}
								if k == lo {
									if tab.shape == 4 {
										pt = append(pt, climbTok{kind: "(", text: "N LB"})
									} else {
										pt = append(pt, climbTok{kind: "(", text: "LP"})
									}
								}
								pt = append(pt, climbTok{kind: "n", text: "N"})
								if k == hi {
									if tab.shape == 4 {
										pt = append(pt, climbTok{kind: ")", text: "RB"})
									} else {
										pt = append(pt, climbTok{kind: ")", text: "RP"})
									}
								}
							}
							check(pt)
						}
					}
				}
			}
			if len(seq) == maxOps {
				return
			}
			for _, on := range opNames {
				run(append(append([]string{}, seq...), on))
			}
		}
		run(nil)
	})
	rep.done(t, true, fmt.Sprintf("%d operator tables (1..3 binary operators, every assignment of levels and per-level associativity, five layouts of the rule (one with a two-token operator sharing its first token with another operator of its level, one with an index-like atom N [ e ] whose brackets are declared before the operators), level numbers 1..3 scaled by 1, 7 or 10, or written 9, 010, 0011) x every operator sequence of length <= %d (with parentheses around every contiguous operand group for sequences <= 3)", len(tables), maxOps))
}
