package zzverif

import (
	"encoding/json"
	"fmt"
	"strings"
	"testing"
	"time"
	"unicode/utf8"
)

// ---- lexer fixtures: modes, actions, reference semantics --------------------------------------

type lxAct struct {
	kind string // push pop emit discard
	arg  string
}

type lxRule struct {
	name string // token name; "" for @frag
	tree lexTree
	acts []lxAct
	ext  bool // an @external declaration: a terminal without a rule
}

type lxMode struct {
	name  string // "" = default mode
	rules []lxRule
}

type lxSpec struct {
	name  string
	modes []lxMode // textual order; modes[0] is the default mode's top-level rules
	alpha []string // input alphabet (strings of bytes)
	maxIn int
}

func (s lxSpec) text() string {
	var sb strings.Builder
	sb.WriteString("@lexer\n")
	writeRule := func(r lxRule, indent string) {
		sb.WriteString(indent)
		if r.ext {
			fmt.Fprintf(&sb, "@external %s\n", r.name)
			return
		}
		if r.name != "" {
			fmt.Fprintf(&sb, "%s = %s", r.name, r.tree.text)
		} else {
			fmt.Fprintf(&sb, "@frag %s", r.tree.text)
		}
		for _, a := range r.acts {
			switch a.kind {
			case "push":
				fmt.Fprintf(&sb, " @push_mode(%s)", a.arg)
			case "pop":
				sb.WriteString(" @pop_mode")
			case "emit":
				fmt.Fprintf(&sb, " @emit(%s)", a.arg)
			case "discard":
				sb.WriteString(" @discard")
			}
		}
		sb.WriteString("\n")
	}
	for _, m := range s.modes {
		if m.name == "" {
			for _, r := range m.rules {
				writeRule(r, "")
			}
		} else {
			fmt.Fprintf(&sb, "@mode %s {\n", m.name)
			for _, r := range m.rules {
				writeRule(r, "  ")
			}
			sb.WriteString("}\n")
		}
	}
	first := ""
	for _, m := range s.modes {
		for _, r := range m.rules {
			if first == "" && r.name != "" && !r.ext {
				first = r.name
			}
		}
	}
	fmt.Fprintf(&sb, "@parser\n@start s = %s\n", first)
	return sb.String()
}

// tokenNames in declaration order (statement order, modes inline): the
// documented numbering is EOF=0, ERROR=1, then these.
func (s lxSpec) tokenNames() []string {
	var names []string
	for _, m := range s.modes {
		for _, r := range m.rules {
			if r.name != "" {
				names = append(names, r.name)
			}
		}
	}
	return names
}

func (s lxSpec) tokenIndex(name string) int {
	for i, n := range s.tokenNames() {
		if n == name {
			return i + 2
		}
	}
	return -1
}

func (s lxSpec) mode(name string) *lxMode {
	if name == "$default" {
		name = ""
	}
	for i := range s.modes {
		if s.modes[i].name == name {
			return &s.modes[i]
		}
	}
	return nil
}

type refTok struct {
	Type int    `json:"type"`
	Text []byte `json:"text"`
	Off  int    `json:"off"`
}

func (t refTok) String() string { return fmt.Sprintf("{%d %q %d}", t.Type, t.Text, t.Off) }

// reference: the token stream the property statements (C02, C07, C11) define,
// up to and including the first lexical error or EOF. unaccounted reports text
// that was accumulated by an action-less fragment and is still pending at EOF.
func (s lxSpec) reference(input []byte) (toks []refTok, unaccounted bool) {
	cur := s.mode("")
	var stack []*lxMode
	pos, start := 0, 0
	for steps := 0; steps < 10000; steps++ {
		if pos == len(input) {
			if start < pos {
				// text kept by an action-less fragment is still pending: the end of the
				// input is not a token boundary, so it is a lexical error at that text
				toks = append(toks, refTok{1, nil, start})
				return
			}
			toks = append(toks, refTok{0, nil, pos})
			return
		}
		// longest run that is still a prefix of some match of the current mode
		ds := make([]*re, len(cur.rules))
		for i, r := range cur.rules {
			ds[i] = r.tree.r
		}
		run, p := 0, pos
		lastMatch := -1 // rule matching exactly the maximal run
		for p < len(input) {
			c, w := utf8.DecodeRune(input[p:])
			viable := false
			nd := make([]*re, len(ds))
			for i, d := range ds {
				nd[i] = d.deriv(c)
				if nd[i].kind != reNone {
					viable = true
				}
			}
			if !viable {
				break
			}
			ds = nd
			p += w
			run = p - pos
		}
		if run > 0 {
			for i, d := range ds {
				if d.nullable() {
					lastMatch = i
					break
				}
			}
		}
		if run == 0 || lastMatch < 0 {
			toks = append(toks, refTok{1, nil, start})
			return
		}
		rule := cur.rules[lastMatch]
		end := pos + run
		terminated := false
		emitType := -1
		discard := false
		for _, a := range rule.acts {
			switch a.kind {
			case "push":
				stack = append(stack, cur)
				cur = s.mode(a.arg)
			case "pop":
				if len(stack) == 0 {
					toks = append(toks, refTok{1, nil, start})
					return
				}
				cur = stack[len(stack)-1]
				stack = stack[:len(stack)-1]
			case "emit":
				emitType = s.tokenIndex(a.arg)
			case "discard":
				discard = true
			}
		}
		if rule.name != "" {
			emitType = s.tokenIndex(rule.name)
		}
		switch {
		case emitType >= 0:
			toks = append(toks, refTok{emitType, input[start:end], start})
			terminated = true
		case discard:
			terminated = true
		}
		pos = end
		if terminated {
			start = pos
		}
	}
	return
}

const lexDriver = `package main

import (
	"bufio"
	"encoding/json"
	gotoken "go/token"
	"os"

	"github.com/dcaiafa/loxlex/simplelexer"
)

type Token = simplelexer.Token

type fxParser struct {
	lox
}

func (p *fxParser) on_s(t Token) any { return nil }

type tok struct {
	Type int    ` + "`json:\"type\"`" + `
	Text []byte ` + "`json:\"text\"`" + `
	Off  int    ` + "`json:\"off\"`" + `
}

type result struct {
	Toks  []tok    ` + "`json:\"toks\"`" + `
	Names []string ` + "`json:\"names\"`" + `
	Hung  bool     ` + "`json:\"hung\"`" + `
	EOFAfterError bool ` + "`json:\"eof_after_error\"`" + `
}

func tokenName(i int) (s string) {
	defer func() {
		if r := recover(); r != nil {
			s = "PANIC"
		}
	}()
	return _TokenToString(i)
}

func main() {
	in := bufio.NewScanner(os.Stdin)
	in.Buffer(make([]byte, 1<<20), 1<<20)
	out := json.NewEncoder(os.Stdout)
	for in.Scan() {
		var input []byte
		if err := json.Unmarshal(in.Bytes(), &input); err != nil {
			panic(err)
		}
		fset := gotoken.NewFileSet()
		file := fset.AddFile("in", -1, len(input))
		lex := simplelexer.New(simplelexer.Config{StateMachine: new(_LexerStateMachine), File: file, Input: input})
		var res result
		for i := 0; ; i++ {
			if i > 4*len(input)+8 {
				res.Hung = true
				break
			}
			t, typ := lex.ReadToken()
			res.Toks = append(res.Toks, tok{typ, t.Str, file.Offset(t.Pos)})
			if typ == simplelexer.EOF {
				break
			}
			if typ == simplelexer.ERROR {
				// the driver has skipped to the end of the line (the inputs have none: to the
				// end of the input) and reset the state machine: EOF must follow
				for k := 0; k < 8; k++ {
					_, typ2 := lex.ReadToken()
					if typ2 == simplelexer.EOF {
						res.EOFAfterError = true
						break
					}
				}
				break
			}
		}
		for i := -2; i < 40; i++ {
			res.Names = append(res.Names, tokenName(i))
		}
		out.Encode(res)
	}
}
`

func lexFixtures() []lxSpec {
	a, b, c := lit("a"), lit("b"), lit("c")
	ab := class("ab", []rng{{'a', 'b'}}, false)
	abc := []string{"a", "b", "c", "x"}
	L := func(name string, t lexTree, acts ...lxAct) lxRule { return lxRule{name: name, tree: t, acts: acts} }
	X := func(name string) lxRule { return lxRule{name: name, tree: lexTree{text: "", r: rNone}, ext: true} }
	push := func(m string) lxAct { return lxAct{"push", m} }
	pop := lxAct{"pop", ""}
	emit := func(t string) lxAct { return lxAct{"emit", t} }
	discard := lxAct{"discard", ""}
	return []lxSpec{
		{name: "longest-earliest", alpha: abc, maxIn: 5, modes: []lxMode{{"", []lxRule{
			L("KW", lit("ab")), L("ID", plusT(ab)), L("C", plusT(c)), L("", lit("x"), discard),
		}}}},
		{name: "prefix-no-backtrack", alpha: abc, maxIn: 5, modes: []lxMode{{"", []lxRule{
			L("A", a), L("ABC", catT(catT(a, b), c)), L("B", b),
		}}}},
		{name: "push-pop", alpha: abc, maxIn: 5, modes: []lxMode{
			{"", []lxRule{L("OPEN", a, push("In")), L("X", lit("x"))}},
			{"In", []lxRule{L("B", b), L("CLOSE", c, pop), L("NEST", a, push("In"))}},
		}},
		{name: "frag-emit-push-order1", alpha: abc, maxIn: 5, modes: []lxMode{
			{"", []lxRule{L("T", lit("x")), L("", a, emit("T"), push("M")), L("U", b)}},
			{"M", []lxRule{L("V", b), L("BACK", c, pop)}},
		}},
		{name: "frag-emit-push-order2", alpha: abc, maxIn: 5, modes: []lxMode{
			{"", []lxRule{L("T", lit("x")), L("", a, push("M"), emit("T")), L("U", b)}},
			{"M", []lxRule{L("V", b), L("BACK", c, pop)}},
		}},
		{name: "pop-then-push", alpha: abc, maxIn: 6, modes: []lxMode{
			{"", []lxRule{L("LT", a, push("Tag")), L("TEXT", lit("x"))}},
			{"Tag", []lxRule{L("NAME", b), L("EQ", c, pop, push("Val"))}},
			{"Val", []lxRule{L("NUM", plusT(b)), L("SEMI", a, pop)}},
		}},
		// the same mode swap written on a fragment, with the terminating action last and first
		{name: "frag-pop-then-push", alpha: abc, maxIn: 6, modes: []lxMode{
			{"", []lxRule{L("LT", a, push("Tag")), L("TEXT", lit("x"))}},
			{"Tag", []lxRule{L("NAME", b), L("", c, pop, push("Val"), discard)}},
			{"Val", []lxRule{L("NUM", plusT(b)), L("SEMI", a, pop), L("", c, discard, pop, push("Tag"))}},
		}},
		{name: "push-then-pop-same-rule", alpha: abc, maxIn: 5, modes: []lxMode{
			{"", []lxRule{L("P", a, push("M"), pop), L("Q", b, push("M"))}},
			{"M", []lxRule{L("R", c, pop), L("S", lit("x"))}},
		}},
		{name: "accumulate", alpha: abc, maxIn: 5, modes: []lxMode{
			{"", []lxRule{L("STR", c), L("", a), L("", b, discard), L("E", lit("x"))}},
		}},
		{name: "pop-on-empty", alpha: []string{"a", "b"}, maxIn: 4, modes: []lxMode{
			{"", []lxRule{L("A", a), L("B", b, pop)}},
		}},
		{name: "default-reentry", alpha: abc, maxIn: 5, modes: []lxMode{
			{"", []lxRule{L("A", a, push("M")), L("X", lit("x"))}},
			{"M", []lxRule{L("B", b, push("$default")), L("C", c, pop)}},
		}},
		// mode names whose declaration order, bytewise order and case-insensitive order all differ
		{name: "mode-names-mixed-case", alpha: abc, maxIn: 5, modes: []lxMode{
			{"", []lxRule{L("TOA", a, push("alpha")), L("TOZ", b, push("Zeta")), L("TOB", c, push("Beta"))}},
			{"alpha", []lxRule{L("A1", a, pop), L("A2", b)}},
			{"Zeta", []lxRule{L("Z1", b, pop), L("Z2", c)}},
			{"Beta", []lxRule{L("B1", c, pop), L("B2", a)}},
		}},
		// @external names between tokens, at top level and inside a mode: numbering follows the declarations
		{name: "externals-interleaved", alpha: abc, maxIn: 4, modes: []lxMode{
			{"", []lxRule{X("INDENT"), L("A", a, push("M")), X("DEDENT"), L("B", b)}},
			{"M", []lxRule{L("C", c, pop), X("INNER"), L("XX", lit("x"))}},
		}},
		// after "ab" the automaton is where it started: minimisation merges that state with the start state
		{name: "loop-back-to-start", alpha: abc, maxIn: 5, modes: []lxMode{{"", []lxRule{
			L("T", catT(starT(catT(a, b)), altT(a, c))),
		}}}},
		// a fragment that matches the empty string, next to one that accumulates
		{name: "nullable-fragment", alpha: abc, maxIn: 4, modes: []lxMode{{"", []lxRule{
			L("A", lit("x")), L("", starT(a)), L("", b),
		}}}},
		// a rule that matches the empty string (accepted by the generator)
		{name: "nullable-rule", alpha: []string{"a", "b"}, maxIn: 3, modes: []lxMode{{"", []lxRule{
			L("AS", starT(a)), L("B", b),
		}}}},
		// a rule whose only mandatory part is a non-greedy repetition: one character per token
		{name: "plus-nongreedy-alone", alpha: abc, maxIn: 5, modes: []lxMode{{"", []lxRule{
			L("LETTER", lexTree{text: "[ab]+?", r: ab.r, size: 2, atom: true, post: true}), L("C", c), L("X", lit("x")),
		}}}},
		{name: "unicode", alpha: []string{"a", "é", "\xff", "z"}, maxIn: 4, modes: []lxMode{
			{"", []lxRule{L("W", plusT(class("a-z", []rng{{'a', 'z'}}, false))), L("HI", plusT(class("\\u0080-\\U0010FFFF", []rng{{0x80, 0x10FFFF}}, false)))}},
		}},
	}
}

func allInputs(alpha []string, maxLen int) [][]byte {
	out := [][]byte{{}}
	prev := [][]byte{{}}
	for l := 1; l <= maxLen; l++ {
		var cur [][]byte
		for _, p := range prev {
			for _, a := range alpha {
				cur = append(cur, append(append([]byte{}, p...), a...))
			}
		}
		out = append(out, cur...)
		prev = cur
	}
	return out
}

// TestGeneratedLexer: the real generated lexer.gen.go/base.gen.go, driven by
// the reference driver (loxlex/simplelexer), against the token streams the
// properties define (C02, C07, C10 emit side, C11, C19).
func TestGeneratedLexer(t *testing.T) {
	rep := newReport("generated-lexer")
	fx := lexFixtures()
	parallel(len(fx), func(i int) {
		spec := fx[i]
		// "$default" is how the generator names the default mode in @push_mode()
		text := strings.ReplaceAll(spec.text(), "@push_mode($default)", "@push_mode()")
		g := generate("lex-"+spec.name, map[string]string{"spec.lox": text, "main.go": lexDriver}, true)
		defer cleanup(g.dir)
		name := spec.name
		if g.panicked != "" {
			rep.fail("C12/no-panic", name, g.panicked)
			return
		}
		if !g.ok || g.buildErr != "" {
			rep.fail("C06+C17/valid-fixture-generates-and-compiles", name, g.diag+g.buildErr)
			return
		}
		maxIn := spec.maxIn
		if thorough {
			maxIn += 2 // two more symbols per input in the thorough tier
		}
		inputs := allInputs(spec.alpha, maxIn)
		var js []any
		for _, in := range inputs {
			js = append(js, in)
		}
		outs, msg := runProg(g.dir, js, 2*time.Minute)
		if msg != "" || len(outs) != len(inputs) {
			rep.fail("C11+C12/generated-lexer-terminates-without-panic", name, fmt.Sprintf("%d of %d inputs answered; %s", len(outs), len(inputs), msg))
			return
		}
		names := spec.tokenNames()
		for k, in := range inputs {
			var got struct {
				Toks  []refTok `json:"toks"`
				Names []string `json:"names"`
				Hung  bool     `json:"hung"`
				EOFAfterError bool `json:"eof_after_error"`
			}
			json.Unmarshal(outs[k], &got)
			rep.count(len(in) > 1)
			label := fmt.Sprintf("%s input=%q", name, in)
			if k == 0 {
				// C19: constants and _TokenToString
				want := append([]string{"EOF", "ERROR"}, names...)
				for j := -2; j < 40; j++ {
					w := "???"
					if j >= 0 && j < len(want) {
						w = want[j]
					}
					if at(got.Names, j+2) != w {
						rep.fail("C19/token-numbers-dense-in-declaration-order", label, fmt.Sprintf("_TokenToString(%d) = %q, want %q", j, at(got.Names, j+2), w))
						break
					}
				}
			}
			if got.Hung {
				obl := "C11/lexing-reaches-EOF"
				if spec.name == "nullable-rule" {
					obl += "/rule-matching-the-empty-string"
				}
				rep.fail(obl, label, "no EOF or error after 4*len+8 tokens")
				continue
			}
			// (a rule that can match the empty string never does: a token consumes at least one character)
			if n := len(got.Toks); n > 0 && got.Toks[n-1].Type == 1 && !got.EOFAfterError {
				rep.fail("C11/lexing-reaches-EOF/after-a-lexical-error", label, "after the lexical error the rest of the input was skipped and the state machine reset, yet EOF is not reported within 8 further reads")
				continue
			}
			want, unaccounted := spec.reference(in)
			_ = unaccounted
			if fmt.Sprint(got.Toks) != fmt.Sprint(want) {
				obl := "C02/token-stream-as-defined"
				if len(want) > 0 && want[len(want)-1].Type == 1 && len(got.Toks) > 0 && got.Toks[len(got.Toks)-1].Type == 0 && len(got.Toks) == len(want) {
					// EOF where the definition has a lexical error: consumed text was dropped silently
					obl = "C11/every-character-accounted-for/EOF-with-consumed-text-pending"
				}
				if len(spec.modes) > 1 || strings.Contains(spec.name, "accum") || strings.Contains(spec.name, "pop") {
					obl = "C07/modes-and-actions-as-defined"
				}
				rep.fail(obl, label, fmt.Sprintf("got %v want %v", got.Toks, want))
			}
		}
		rep.sample(name)
	})
	rep.done(t, true, fmt.Sprintf("%d fixture specifications (modes, every action kind and order, accumulation, pop on empty stack, multi-byte and invalid UTF-8); all inputs over 2-4 symbols up to length 4-6 (thorough: 6-8), through the real generated code and loxlex/simplelexer", len(fx)))
}

func at(xs []string, i int) string {
	if i < len(xs) {
		return xs[i]
	}
	return "<missing>"
}
