package zzverif

import (
	"fmt"
	"sort"
	"testing"

	"github.com/dcaiafa/lox/internal/ast"
	"github.com/dcaiafa/lox/internal/lexergen/rang3"
)

// Bounded stand-in for the parts of the range algebra that are not under a full
// deductive contract yet: Subtract, GetRanges (negation, difference) and the global
// postcondition of Normalize (final pieces pairwise disjoint, every original range an
// exact union of final pieces).

var rangePoints = []rune{0, 1, 2, 3, 5, 6, 0x10FFFE, 0x10FFFF}

func allRanges() []rang3.Range {
	var out []rang3.Range
	for i, b := range rangePoints {
		for _, e := range rangePoints[i:] {
			out = append(out, rang3.Range{B: b, E: e})
		}
	}
	return out
}

func rangeLists(maxLen int) [][]rang3.Range {
	rs := allRanges()
	out := [][]rang3.Range{{}}
	prev := [][]rang3.Range{{}}
	for l := 1; l <= maxLen; l++ {
		var cur [][]rang3.Range
		for _, p := range prev {
			for _, r := range rs {
				cur = append(cur, append(append([]rang3.Range{}, p...), r))
			}
		}
		out = append(out, cur...)
		prev = cur
	}
	return out
}

// probe points: every boundary and its neighbours
func probes() []rune {
	seen := map[rune]bool{}
	var out []rune
	for _, p := range rangePoints {
		for _, q := range []rune{p - 1, p, p + 1} {
			if q >= 0 && q <= 0x10FFFF && !seen[q] {
				seen[q] = true
				out = append(out, q)
			}
		}
	}
	out = append(out, 100, 0x8000)
	return out
}

func covers(rs []rang3.Range, p rune) bool {
	for _, r := range rs {
		if r.B <= p && p <= r.E {
			return true
		}
	}
	return false
}

func sortedGapped(rs []rang3.Range) bool {
	for i, r := range rs {
		if r.B > r.E || r.B < 0 || r.E > 0x10FFFF {
			return false
		}
		if i > 0 && rs[i-1].E+1 >= r.B {
			return false
		}
	}
	return true
}

func TestRangeAlgebra(t *testing.T) {
	rep := newReport("range-algebra")
	ps := probes()
	maxLen := 3
	if thorough {
		maxLen = 4
	}
	lists := rangeLists(maxLen)
	// Subtract: all pairs of lists up to length 2 (thorough: a up to 3)
	small := rangeLists(2)
	parallel(len(lists), func(i int) {
		a := lists[i]
		for _, b := range small {
			if len(a)+len(b) > maxLen+1 {
				continue
			}
			rep.count(len(a) > 0 && len(b) > 0)
			name := fmt.Sprintf("a=%v b=%v", a, b)
			var got []rang3.Range
			pan := ""
			func() {
				defer func() {
					if r := recover(); r != nil {
						pan = fmt.Sprint(r)
					}
				}()
				got = rang3.Subtract(append([]rang3.Range{}, a...), append([]rang3.Range{}, b...))
			}()
			if pan != "" {
				rep.fail("rang3.Subtract/no-panic", name, pan)
				continue
			}
			for _, p := range ps {
				if covers(got, p) != (covers(a, p) && !covers(b, p)) {
					rep.fail("rang3.Subtract/exact-difference", name, fmt.Sprintf("U+%04X: result %v", p, got))
					break
				}
			}
			if len(a) > 0 && len(b) > 0 && !sortedGapped(got) {
				rep.fail("rang3.Subtract/result-sorted-gapped", name, fmt.Sprintf("result %v", got))
			}
		}
	})
	// Normalize: replay the callback on a client copy
	parallel(len(lists), func(i int) {
		orig := lists[i]
		if len(orig) == 0 {
			return
		}
		rep.count(len(orig) > 1)
		name := fmt.Sprintf("ranges=%v", orig)
		cur := map[rang3.Range]bool{}
		for _, r := range orig {
			cur[r] = true
		}
		bad := ""
		func() {
			defer func() {
				if r := recover(); r != nil {
					bad = "panic: " + fmt.Sprint(r)
				}
			}()
			steps := 0
			rang3.Normalize(append([]rang3.Range{}, orig...), func(o, a, b, c rang3.Range) {
				steps++
				if steps > 10000 {
					panic("callback called more than 10000 times")
				}
				if !cur[o] && bad == "" {
					bad = fmt.Sprintf("callback splits %v, which the client does not hold", o)
				}
				delete(cur, o)
				cur[a], cur[b], cur[c] = true, true, true
			})
		}()
		if bad != "" {
			rep.fail("rang3.Normalize/callback-protocol", name, bad)
			return
		}
		var pieces []rang3.Range
		for r := range cur {
			pieces = append(pieces, r)
		}
		sort.Slice(pieces, func(i, j int) bool { return rang3.Compare(pieces[i], pieces[j]) < 0 })
		for i := range pieces {
			for j := i + 1; j < len(pieces); j++ {
				if pieces[i].Intersects(pieces[j]) {
					rep.fail("rang3.Normalize/final-pieces-disjoint", name, fmt.Sprintf("%v and %v overlap (pieces %v)", pieces[i], pieces[j], pieces))
					return
				}
			}
		}
		for _, o := range orig {
			for _, p := range ps {
				in := o.B <= p && p <= o.E
				n := 0
				for _, f := range pieces {
					if o.Contains(f) && f.B <= p && p <= f.E {
						n++
					}
				}
				if (in && n != 1) || (!in && n != 0) {
					rep.fail("rang3.Normalize/every-range-exact-union-of-pieces", name, fmt.Sprintf("%v at U+%04X is covered by %d contained pieces (pieces %v)", o, p, n, pieces))
					return
				}
			}
		}
	})
	// class expressions: negation and difference
	for _, a := range small {
		if len(a) == 0 {
			continue
		}
		mk := func(rs []rang3.Range, neg bool) *ast.CharClass {
			c := &ast.CharClass{Neg: neg}
			for _, r := range rs {
				c.CharClassItems = append(c.CharClassItems, &ast.CharClassItem{From: r.B, To: r.E})
			}
			return c
		}
		for _, neg := range []bool{false, true} {
			rep.count(true)
			got := mk(a, neg).GetRanges()
			for _, p := range ps {
				if covers(got, p) != (covers(a, p) != neg) {
					rep.fail("ast.CharClass.GetRanges/exact-set", fmt.Sprintf("items=%v neg=%v", a, neg), fmt.Sprintf("U+%04X: result %v", p, got))
					break
				}
			}
		}
		for _, b := range small[:40] {
			if len(b) == 0 {
				continue
			}
			rep.count(true)
			e := &ast.CharClassBinaryExpr{Op: ast.CharClassBinaryExprSub, Left: mk(a, false), Right: mk(b, true)}
			got := e.GetRanges()
			for _, p := range ps {
				if covers(got, p) != (covers(a, p) && covers(b, p)) {
					rep.fail("ast.CharClassBinaryExpr.GetRanges/exact-difference", fmt.Sprintf("[a]-~[b] a=%v b=%v", a, b), fmt.Sprintf("U+%04X: result %v", p, got))
					break
				}
			}
		}
	}
	rep.sample("a=[{0 1}] b=[{1 1114111}]")
	rep.done(t, true, fmt.Sprintf("all lists of <=%d ranges over 8 boundary code points (0,1,2,3,5,6,U+10FFFE,U+10FFFF): Subtract on all pairs with <=%d ranges in total, Normalize with a client-side replay of the callback, class negation and difference; checked on every boundary point and its neighbours", maxLen, maxLen+1))
}
