package zzverif

import (
	"bytes"
	"fmt"
	gotoken "go/token"
	"math/rand"
	"sort"
	"strings"
	"testing"

	"github.com/dcaiafa/lox/internal/ast"
	"github.com/dcaiafa/lox/internal/base/errlogger"
	"github.com/dcaiafa/lox/internal/lexergen/dfa"
	"github.com/dcaiafa/lox/internal/lexergen/mode"
	"github.com/dcaiafa/lox/internal/lexergen/rang3"
	"github.com/dcaiafa/lox/internal/parser"
	"github.com/dcaiafa/lox/internal/parsergen/lr1"
)

// ---- running the real front end ---------------------------------------------------

type built struct {
	ok       bool
	diag     string
	panicked string
	ctx      *ast.Context
	table    *lr1.ParserTable
}

// buildSpec runs parser.Parse + ast.Analyze (+ ConstructLALR when there are
// parser rules) on in-memory .lox files, the way codegen.ParseLox does.
func buildSpec(files []string, withTable bool) (b built) {
	var out bytes.Buffer
	defer func() {
		if r := recover(); r != nil {
			b.ok = false
			b.panicked = fmt.Sprint(r)
			b.diag = out.String()
		}
	}()
	fset := gotoken.NewFileSet()
	errs := errlogger.New(fset, &out)
	spec := new(ast.Spec)
	for i, text := range files {
		data := []byte(text)
		file := fset.AddFile(fmt.Sprintf("f%d.lox", i), -1, len(data))
		unit := parser.Parse(file, data, errs)
		if errs.HasError() {
			return built{diag: out.String()}
		}
		spec.Units = append(spec.Units, unit)
	}
	ctx := ast.NewContext(fset, errs)
	ctx.Analyze(spec, ast.AllPasses)
	if errs.HasError() {
		return built{diag: out.String(), ctx: ctx}
	}
	b = built{ok: true, ctx: ctx, diag: out.String()}
	if withTable {
		b.table = lr1.ConstructLALR(ctx.Grammar)
	}
	return b
}

// ---- reference regular expressions (Brzozowski derivatives) -----------------------------

type rng struct{ lo, hi rune }

const (
	reNone = iota // empty language
	reEps
	reSet
	reCat
	reAlt
	reStar
)

type re struct {
	kind int
	set  []rng
	a, b *re
	key  string
}

var (
	rNone = &re{kind: reNone, key: "0"}
	rEps  = &re{kind: reEps, key: "e"}
)

func mkSet(rs []rng) *re {
	rs = normRanges(rs)
	if len(rs) == 0 {
		return rNone
	}
	return &re{kind: reSet, set: rs, key: fmt.Sprint("[", rs, "]")}
}

func normRanges(rs []rng) []rng {
	rs = append([]rng{}, rs...)
	sort.Slice(rs, func(i, j int) bool { return rs[i].lo < rs[j].lo })
	var out []rng
	for _, r := range rs {
		if r.lo > r.hi {
			continue
		}
		if n := len(out); n > 0 && r.lo <= out[n-1].hi+1 {
			if r.hi > out[n-1].hi {
				out[n-1].hi = r.hi
			}
			continue
		}
		out = append(out, r)
	}
	return out
}

func negRanges(rs []rng) []rng {
	rs = normRanges(rs)
	var out []rng
	next := rune(0)
	for _, r := range rs {
		if r.lo > next {
			out = append(out, rng{next, r.lo - 1})
		}
		next = r.hi + 1
	}
	if next <= 0x10FFFF {
		out = append(out, rng{next, 0x10FFFF})
	}
	return out
}

func mkCat(a, b *re) *re {
	if a.kind == reNone || b.kind == reNone {
		return rNone
	}
	if a.kind == reEps {
		return b
	}
	if b.kind == reEps {
		return a
	}
	return &re{kind: reCat, a: a, b: b, key: "(" + a.key + "." + b.key + ")"}
}

func mkAlt(a, b *re) *re {
	if a.kind == reNone {
		return b
	}
	if b.kind == reNone {
		return a
	}
	if a.key == b.key {
		return a
	}
	// flatten and sort alternatives for a canonical form
	var parts []*re
	var flat func(x *re)
	flat = func(x *re) {
		if x.kind == reAlt {
			flat(x.a)
			flat(x.b)
		} else {
			parts = append(parts, x)
		}
	}
	flat(a)
	flat(b)
	sort.Slice(parts, func(i, j int) bool { return parts[i].key < parts[j].key })
	var uniq []*re
	for _, p := range parts {
		if len(uniq) == 0 || uniq[len(uniq)-1].key != p.key {
			uniq = append(uniq, p)
		}
	}
	r := uniq[len(uniq)-1]
	for i := len(uniq) - 2; i >= 0; i-- {
		r = &re{kind: reAlt, a: uniq[i], b: r, key: "(" + uniq[i].key + "|" + r.key + ")"}
	}
	return r
}

func mkStar(a *re) *re {
	if a.kind == reNone || a.kind == reEps {
		return rEps
	}
	if a.kind == reStar {
		return a
	}
	return &re{kind: reStar, a: a, key: "(" + a.key + ")*"}
}

func (r *re) nullable() bool {
	switch r.kind {
	case reEps, reStar:
		return true
	case reCat:
		return r.a.nullable() && r.b.nullable()
	case reAlt:
		return r.a.nullable() || r.b.nullable()
	}
	return false
}

func (r *re) deriv(c rune) *re {
	switch r.kind {
	case reSet:
		for _, x := range r.set {
			if x.lo <= c && c <= x.hi {
				return rEps
			}
		}
		return rNone
	case reCat:
		d := mkCat(r.a.deriv(c), r.b)
		if r.a.nullable() {
			return mkAlt(d, r.b.deriv(c))
		}
		return d
	case reAlt:
		return mkAlt(r.a.deriv(c), r.b.deriv(c))
	case reStar:
		return mkCat(r.a.deriv(c), r)
	}
	return rNone
}

func (r *re) bounds(out map[rune]bool) {
	switch r.kind {
	case reSet:
		for _, x := range r.set {
			out[x.lo] = true
			if x.hi < 0x10FFFF {
				out[x.hi+1] = true
			}
		}
	case reCat, reAlt:
		r.a.bounds(out)
		r.b.bounds(out)
	case reStar:
		r.a.bounds(out)
	}
}

// ---- syntax trees that print as .lox and evaluate to a reference regex ----------------------

type lexTree struct {
	text string // .lox syntax
	r    *re
	size int
	atom bool
	post bool // already carries a cardinality suffix
}

func lit(s string) lexTree {
	r := rEps
	for _, c := range s {
		r = mkCat(r, mkSet([]rng{{c, c}}))
	}
	return lexTree{text: "'" + s + "'", r: r, size: 1, atom: true}
}

func class(text string, rs []rng, neg bool) lexTree {
	if neg {
		return lexTree{text: "~[" + text + "]", r: mkSet(negRanges(rs)), size: 1, atom: true}
	}
	return lexTree{text: "[" + text + "]", r: mkSet(rs), size: 1, atom: true}
}

func anyChar() lexTree {
	return lexTree{text: ".", r: mkSet([]rng{{0, 0x10FFFF}}), size: 1, atom: true}
}

func paren(t lexTree) string {
	if t.atom {
		return t.text
	}
	return "(" + t.text + ")"
}

func catT(a, b lexTree) lexTree {
	return lexTree{text: paren(a) + " " + paren(b), r: mkCat(a.r, b.r), size: a.size + b.size}
}
func altT(a, b lexTree) lexTree {
	return lexTree{text: paren(a) + " | " + paren(b), r: mkAlt(a.r, b.r), size: a.size + b.size}
}
func parenPost(t lexTree) string {
	if t.atom && !t.post {
		return t.text
	}
	return "(" + t.text + ")"
}
func optT(a lexTree) lexTree {
	return lexTree{text: parenPost(a) + "?", r: mkAlt(rEps, a.r), size: a.size + 1, atom: true, post: true}
}
func starT(a lexTree) lexTree {
	return lexTree{text: parenPost(a) + "*", r: mkStar(a.r), size: a.size + 1, atom: true, post: true}
}
func plusT(a lexTree) lexTree {
	return lexTree{text: parenPost(a) + "+", r: mkCat(a.r, mkStar(a.r)), size: a.size + 1, atom: true, post: true}
}

func lexAtoms() []lexTree {
	return []lexTree{
		lit("a"), lit("b"), lit("ab"), lit("ba"), lit("é"), lit("a→"),
		class("a", []rng{{'a', 'a'}}, false),
		class("ab", []rng{{'a', 'b'}}, false),
		class("a-c", []rng{{'a', 'c'}}, false),
		class("b-cx", []rng{{'b', 'c'}, {'x', 'x'}}, false),
		// items nested in, overlapping and repeating one another
		class("a-cb", []rng{{'a', 'c'}}, false),
		class("b-xa-cc", []rng{{'a', 'x'}}, false),
		class("a", []rng{{'a', 'a'}}, true),
		class("\\u0000-b", []rng{{0, 'b'}}, false),
		class("c-\\U0010FFFF", []rng{{'c', 0x10FFFF}}, false),
		anyChar(),
	}
}

// lexTrees enumerates expressions up to the given size.
func lexTrees(maxSize int) []lexTree {
	bySize := map[int][]lexTree{1: lexAtoms()}
	for s := 2; s <= maxSize; s++ {
		var cur []lexTree
		for _, a := range bySize[s-1] {
			cur = append(cur, optT(a), starT(a), plusT(a))
		}
		for sa := 1; sa < s; sa++ {
			for _, a := range bySize[sa] {
				for _, b := range bySize[s-sa] {
					cur = append(cur, catT(a, b), altT(a, b))
				}
			}
		}
		bySize[s] = cur
	}
	var out []lexTree
	seen := map[string]bool{}
	for s := 1; s <= maxSize; s++ {
		for _, t := range bySize[s] {
			if !seen[t.text] {
				seen[t.text] = true
				out = append(out, t)
			}
		}
	}
	return out
}

// ---- the contract of ModeBuilder.Build, checked by product exploration -------------------------

func dfaStep(s *dfa.State, c rune) (to *dfa.State, hits int) {
	s.Transitions.ForEach(func(in any, t *dfa.State) {
		r, ok := in.(rang3.Range)
		if ok && r.B <= c && c <= r.E {
			to = t
			hits++
		}
	})
	return
}

type ruleSpec struct {
	tree     lexTree
	terminal int // expected terminal index for token rules; -1 for a discarding fragment
}

// checkMode explores the product of the generated DFA with the vector of
// derivatives of the rules; it decides, for every string over the whole code
// space, whether the DFA state reached agrees with the rules.
func checkMode(rep *report, name string, m *mode.Mode, rules []ruleSpec) {
	bset := map[rune]bool{0: true}
	for _, r := range rules {
		r.tree.r.bounds(bset)
	}
	var reps []rune
	for b := range bset {
		reps = append(reps, b)
	}
	sort.Slice(reps, func(i, j int) bool { return reps[i] < reps[j] })

	type node struct {
		q  *dfa.State
		ds []*re
		w  string
	}
	keyOf := func(n node) string {
		var sb strings.Builder
		fmt.Fprintf(&sb, "%d", n.q.ID)
		for _, d := range n.ds {
			sb.WriteString("#" + d.key)
		}
		return sb.String()
	}
	start := node{q: m.DFA.States[0]}
	for _, r := range rules {
		start.ds = append(start.ds, r.tree.r)
	}
	if m.DFA.States[0].ID != 0 {
		rep.fail("dfa.NFAToDFA/start-is-state-0", name, "States[0].ID != 0")
	}
	seen := map[string]bool{keyOf(start): true}
	work := []node{start}
	for explored := 0; len(work) > 0 && explored < 4000; explored++ {
		n := work[0]
		work = work[1:]
		// acceptance and the winning rule
		win := -1
		for i, d := range n.ds {
			if d.nullable() {
				win = i
				break
			}
		}
		acts, _ := n.q.Data.(*mode.Actions)
		if (win >= 0) != n.q.Accept {
			rep.fail("mode.Build/accepts-exactly-the-matches", name+" input="+fmt.Sprintf("%q", n.w), fmt.Sprintf("DFA state %d Accept=%v but a rule matches=%v", n.q.ID, n.q.Accept, win >= 0))
			return
		}
		if win < 0 {
			if acts != nil {
				rep.fail("mode.pickAction/no-action-without-match", name+" input="+fmt.Sprintf("%q", n.w), "state carries actions although no rule matches")
				return
			}
		} else {
			if acts == nil || len(acts.Actions) == 0 {
				rep.fail("mode.pickAction/earliest-rule-wins", name+" input="+fmt.Sprintf("%q", n.w), "accepting state has no actions")
				return
			}
			last := acts.Actions[len(acts.Actions)-1]
			want := rules[win]
			if want.terminal >= 0 {
				if last.Type != mode.ActionAccept || last.Terminal != want.terminal {
					rep.fail("mode.pickAction/earliest-rule-wins", name+" input="+fmt.Sprintf("%q", n.w), fmt.Sprintf("expected token #%d (rule %d), state has %+v", want.terminal, win, acts.Actions))
					return
				}
			} else if last.Type != mode.ActionDiscard {
				rep.fail("mode.pickAction/earliest-rule-wins", name+" input="+fmt.Sprintf("%q", n.w), fmt.Sprintf("expected the discarding fragment (rule %d), state has %+v", win, acts.Actions))
				return
			}
		}
		for _, c := range reps {
			to, hits := dfaStep(n.q, c)
			if hits > 1 {
				rep.fail("mode.normalizeInputs+mergeTransitions/ranges-disjoint", name, fmt.Sprintf("state %d has %d transitions containing U+%04X", n.q.ID, hits, c))
				return
			}
			next := node{q: to, w: n.w + string(c)}
			viable := false
			for _, d := range n.ds {
				dd := d.deriv(c)
				next.ds = append(next.ds, dd)
				if dd.kind != reNone {
					viable = true
				}
			}
			if viable != (to != nil) {
				rep.fail("dfa.NFAToDFA/transition-iff-viable-prefix", name+" input="+fmt.Sprintf("%q", next.w), fmt.Sprintf("DFA has transition=%v but the text is a viable prefix=%v", to != nil, viable))
				return
			}
			if to == nil {
				continue
			}
			k := keyOf(next)
			if !seen[k] {
				seen[k] = true
				work = append(work, next)
			}
		}
	}
	// structural facts of the automaton (C10): ids are indices, ranges sorted apart after merging
	for i, s := range m.DFA.States {
		if int(s.ID) != i {
			rep.fail("dfa.optimize/ids-are-indices", name, fmt.Sprintf("States[%d].ID = %d", i, s.ID))
		}
		var rs []rang3.Range
		s.Transitions.ForEach(func(in any, t *dfa.State) {
			if r, ok := in.(rang3.Range); ok {
				rs = append(rs, r)
				if int(t.ID) >= len(m.DFA.States) || m.DFA.States[t.ID] != t {
					rep.fail("dfa.optimize/targets-in-table", name, fmt.Sprintf("state %d has a transition to a state outside DFA.States", s.ID))
				}
			} else {
				rep.fail("mode.Build/only-range-inputs", name, "non-range input left in the DFA")
			}
		})
		sort.Slice(rs, func(a, b int) bool { return rs[a].B < rs[b].B })
		for k := range rs {
			if rs[k].B > rs[k].E || rs[k].B < 0 || rs[k].E > 0x10FFFF {
				rep.fail("rang3/wf-ranges", name, fmt.Sprintf("state %d has the range %v", s.ID, rs[k]))
			}
			if k > 0 && rs[k-1].E >= rs[k].B {
				rep.fail("mode.normalizeInputs+mergeTransitions/ranges-disjoint", name, fmt.Sprintf("state %d: %v overlaps %v", s.ID, rs[k-1], rs[k]))
			}
		}
	}
}

func lexSpecText(rules []ruleSpec) string {
	var sb strings.Builder
	sb.WriteString("@lexer\n")
	tok := 0
	for _, r := range rules {
		if r.terminal >= 0 {
			fmt.Fprintf(&sb, "T%d = %s\n", tok, r.tree.text)
			tok++
		} else {
			fmt.Fprintf(&sb, "@frag %s @discard\n", r.tree.text)
		}
	}
	return sb.String()
}

// TestLexerDFA: bounded stand-in for the Thompson construction, normalizeInputs,
// NFAToDFA, optimize, mergeTransitions and pickAction (C02, C10, C15).
func TestLexerDFA(t *testing.T) {
	rep := newReport("dfa-vs-rules")
	trees := lexTrees(3)
	var usable, nullable []lexTree
	for _, tr := range trees {
		if !tr.r.nullable() && tr.r.kind != reNone {
			usable = append(usable, tr)
		} else if tr.r.nullable() && tr.size <= 2 {
			nullable = append(nullable, tr)
		}
	}
	n := 2500
	if thorough {
		n = 40000
	}
	rnd := rand.New(rand.NewSource(seed()))
	type job struct{ rules []ruleSpec }
	var jobs []job
	// every single rule, then random rule sets of 2..3 rules (one of them may be a discarding fragment)
	for _, tr := range usable {
		jobs = append(jobs, job{[]ruleSpec{{tr, 2}}})
	}
	// a rule or a discarding fragment that also matches the empty string (the start state is
	// then accepting), next to an ordinary rule
	for i, nt := range nullable {
		other := usable[(i*37)%len(usable)]
		jobs = append(jobs, job{[]ruleSpec{{other, 2}, {nt, -1}}}, job{[]ruleSpec{{nt, 2}, {other, 3}}})
	}
	// one range owned by 3, 5, 6 or 7 rules (owner lists with spare capacity), split into
	// pieces that exist as ranges of their own, the first of which is split again
	nShared := 0
	for _, owners := range []int{3, 5, 6, 7} {
		var rs []ruleSpec
		wide := class("a-j", []rng{{'a', 'j'}}, false)
		for k := 0; k < owners; k++ {
			rs = append(rs, ruleSpec{catT(wide, lit(string(rune('k'+k)))), 2 + k})
		}
		rs = append(rs,
			ruleSpec{catT(class("d-f", []rng{{'d', 'f'}}, false), lit("x")), 2 + owners},
			ruleSpec{catT(class("g-j", []rng{{'g', 'j'}}, false), lit("y")), 3 + owners},
			ruleSpec{catT(lit("e"), lit("z")), 4 + owners})
		jobs = append(jobs, job{rs})
		nShared++
	}
	for len(jobs) < n+len(usable)+2*len(nullable)+nShared {
		k := 2 + rnd.Intn(2)
		var rs []ruleSpec
		tok := 0
		for i := 0; i < k; i++ {
			tr := usable[rnd.Intn(len(usable))]
			if i > 0 && rnd.Intn(5) == 0 {
				rs = append(rs, ruleSpec{tr, -1})
			} else {
				rs = append(rs, ruleSpec{tr, 2 + tok})
				tok++
			}
		}
		jobs = append(jobs, job{rs})
	}
	parallel(len(jobs), func(i int) {
		rules := jobs[i].rules
		text := lexSpecText(rules)
		b := buildSpec([]string{text}, false)
		name := strings.ReplaceAll(strings.TrimSpace(text), "\n", " ; ")
		rep.count(len(rules) > 1)
		if b.panicked != "" {
			rep.fail("C12/no-panic", name, b.panicked)
			return
		}
		if !b.ok {
			rep.fail("C17/well-formed-spec-accepted", name, b.diag)
			return
		}
		m := defaultMode(b)
		if m == nil {
			rep.fail("ast.Spec/default-mode-built", name, fmt.Sprintf("no default mode among %d modes", len(b.ctx.LexerDFAs)))
			return
		}
		checkMode(rep, name, m, rules)
		if i%701 == 0 {
			rep.sample(name)
		}
	})
	rep.done(t, false, fmt.Sprintf("%d expression shapes of size <=3 over 16 atoms (literals incl. multi-byte characters, classes incl. negation, nested and overlapping items, code-space ends, '.'); every single rule, every rule that also matches the empty string beside another rule, four sets in which 3-7 rules share a range that is split twice, plus %d seeded random sets of 2-3 rules; per set ALL strings are covered by product exploration (<=4000 product states)", len(usable), n))
}

// ---- non-greedy repetitions (C08) ----------------------------------------------------------------

// runDFA follows the documented rule of the generated state machine: in an
// accepting state marked non-greedy the token ends; otherwise a transition is
// taken when one exists, and the state's actions decide when none does.
func runDFA(m *mode.Mode, in []rune) (end int, terminal int, accepted bool) {
	st := m.DFA.States[0]
	i := 0
	for {
		if st.Accept && st.NonGreedy {
			break
		}
		if i >= len(in) {
			break
		}
		to, _ := dfaStep(st, in[i])
		if to == nil {
			break
		}
		st = to
		i++
	}
	acts, _ := st.Data.(*mode.Actions)
	if acts == nil || len(acts.Actions) == 0 {
		return i, -1, false
	}
	last := acts.Actions[len(acts.Actions)-1]
	return i, last.Terminal, last.Type == mode.ActionAccept
}

type ngBody struct {
	text string
	set  string // characters of {a,b,c} it matches
}

func TestNonGreedy(t *testing.T) {
	rep := newReport("nongreedy-first-terminator")
	prefixes := []string{"a", "ab", "c"}
	bodies := []ngBody{{"[ab]", "ab"}, {".", "abc"}, {"[a-c]", "abc"}, {"('a' | 'b')", "ab"}, {"[b]", "b"}}
	terms := []string{"b", "ab", "bb", "aba", "c", "cc"}
	cards := []string{"*?", "+?"}
	extras := []struct {
		text    string
		overlap bool
	}{{"", false}, {"G = [xy]+", false}, {"G = [abc]+", true}}
	maxLen := 6
	if thorough {
		maxLen = 8
	}
	var inputs [][]rune
	var gen func(cur []rune)
	gen = func(cur []rune) {
		if len(cur) > 0 {
			inputs = append(inputs, append([]rune{}, cur...))
		}
		if len(cur) == maxLen {
			return
		}
		for _, c := range "abc" {
			gen(append(cur, c))
		}
	}
	gen(nil)
	type job struct {
		pre, term, card string
		body            ngBody
		extra           string
		overlap         bool
	}
	var jobs []job
	for _, p := range prefixes {
		for _, b := range bodies {
			for _, tm := range terms {
				for _, c := range cards {
					for _, e := range extras {
						jobs = append(jobs, job{p, tm, c, b, e.text, e.overlap})
					}
				}
			}
		}
	}
	parallel(len(jobs), func(ji int) {
		j := jobs[ji]
		text := fmt.Sprintf("@lexer\nN = '%s' %s%s '%s'\n%s\n", j.pre, j.body.text, j.card, j.term, j.extra)
		name := strings.ReplaceAll(strings.TrimSpace(text), "\n", " ; ")
		b := buildSpec([]string{text}, false)
		if b.panicked != "" {
			rep.fail("C12/no-panic", name, b.panicked)
			return
		}
		if !b.ok {
			rep.fail("C17/well-formed-spec-accepted", name, b.diag)
			return
		}
		m := defaultMode(b)
		if m == nil {
			rep.fail("ast.Spec/default-mode-built", name, "no default mode")
			return
		}
		min := 0
		if j.card == "+?" {
			min = 1
		}
		for _, in := range inputs {
			s := string(in)
			if !strings.HasPrefix(s, j.pre) {
				continue
			}
			// expected end of the token N: first terminator after the prefix (after `min` repetitions)
			want := -1
			pl := len(j.pre)
			for n := 0; pl+n <= len(s); n++ {
				if n >= min && strings.HasPrefix(s[pl+n:], j.term) {
					want = pl + n + len(j.term)
					break
				}
				if pl+n < len(s) && !strings.ContainsRune(j.body.set, rune(s[pl+n])) {
					break
				}
			}
			if want < 0 {
				continue // N does not match a prefix of this input; nothing is claimed
			}
			rep.count(want < len(s))
			end, term, acc := runDFA(m, in)
			if j.overlap {
				// both rules apply to this text; the longest match of the greedy rule is
				// an acceptable outcome too ("greedy rules keep their longest-match behaviour")
				g := 0
				for g < len(s) && strings.ContainsRune("abc", rune(s[g])) {
					g++
				}
				if acc && term == 3 && end == g {
					continue
				}
			}
			if !acc || term != 2 || end != want {
				obl := "C08/token-ends-at-first-terminator"
				if j.card == "+?" {
					obl = "C08/plus-nongreedy-ends-at-first-terminator"
				}
				if j.overlap {
					obl += "/with-overlapping-greedy-rule"
				}
				rep.fail(obl, name+" input="+s, fmt.Sprintf("expected token N (terminal 2) to end at %d (or the greedy rule's longest match where it overlaps), state machine: end=%d terminal=%d accepted=%v", want, end, term, acc))
				return
			}
		}
		if ji%37 == 0 {
			rep.sample(name)
		}
	})
	rep.done(t, true, fmt.Sprintf("rules 'prefix body(*?|+?) terminator' for 3 prefixes x 5 one-character bodies x 6 literal terminators x 2 operators, alone, with a disjoint greedy rule and with an overlapping greedy rule; all inputs over {a,b,c} of length <=%d", maxLen))
}

func defaultMode(b built) *mode.Mode {
	if m := b.ctx.LexerDFAs[ast.DefaultModeName]; m != nil {
		return m
	}
	return b.ctx.LexerDFAs[""]
}
