package zzverif

import (
	"fmt"
	"os"
	"os/exec"
	"path/filepath"
	"strings"
	"testing"
)

// Bounded stand-in for C06 (action binding): a family of user packages that differ in
// the Go types of rule values and action parameters and in how productions are spread
// over methods. For each one the real generator runs (codegen.Generate); the verdict
// must be the one the property states, an accepted package must compile together with
// the generated files, and at run time every action parameter must hold the value
// produced for its term (never a zero value: every value in the fixtures is non-zero).

type bindCase struct {
	name    string
	pkg     string // Go package name of the user package
	imports string
	decls   string // type declarations and action methods
	accept  bool
	diag    string // for rejected packages: text the diagnostic must contain
	either  bool   // C12 cases: any verdict, but never a panic, a silent failure or output that does not compile
	raw     map[string]string // files written instead of user.go (C12 cases)
}

const bindLox = `@lexer
NUM = [0-9]+
PLUS = '+'
COMMA = ','
@parser
@start s = list
list = @list(e, COMMA)
e = e PLUS t | t
t = NUM
`

// The user code shared by all cases. Every action calls p.rec with its parameters.
const bindCommon = `
type Token struct {
	Type int
	Pos  int
}

func (t Token) String() string { return fmt.Sprintf("n%d", t.Pos) }

type fxParser struct {
	lox
	zeros []string
	root  any
}

func (p *fxParser) rec(name string, args ...any) {
	for i, a := range args {
		if a == nil || reflect.ValueOf(a).IsZero() {
			p.zeros = append(p.zeros, fmt.Sprintf("%s#%d", name, i))
		}
	}
}

func str(v any) string {
	switch x := v.(type) {
	case func() string:
		return x()
	case fmt.Stringer:
		return x.String()
	}
	rv := reflect.ValueOf(v)
	if rv.Kind() == reflect.Slice {
		var parts []string
		for i := 0; i < rv.Len(); i++ {
			parts = append(parts, str(rv.Index(i).Interface()))
		}
		return "[" + strings.Join(parts, ",") + "]"
	}
	if rv.Kind() == reflect.Func {
		out := rv.Call(nil)
		return out[0].String()
	}
	return fmt.Sprint(v)
}

type fakeLexer struct {
	toks []int
	i    int
}

func (l *fakeLexer) ReadToken() (Token, int) {
	if l.i >= len(l.toks) {
		l.i++
		return Token{Type: 0, Pos: len(l.toks) + 1}, 0
	}
	t := Token{Type: l.toks[l.i], Pos: l.i + 1}
	l.i++
	return t, t.Type
}

func Run(toks []int) string {
	p := &fxParser{}
	ok := p.parse(&fakeLexer{toks: toks})
	return fmt.Sprintf("ok=%v root=%s zeros=%v", ok, str(p.root), p.zeros)
}

func (p *fxParser) _onError(e Error) {}
`

// methods for the exact-type layout over a node type N (pointer or value), used by several cases
func exactMethods(n, mk string) string {
	return fmt.Sprintf(`
func (p *fxParser) on_t(tok Token) %[1]s { p.rec("on_t", tok); return %[2]s(tok.String()) }
func (p *fxParser) on_e__bin(l %[1]s, op Token, r %[1]s) %[1]s { p.rec("on_e__bin", l, op, r); return %[2]s("(" + str(l) + "+" + str(r) + ")") }
func (p *fxParser) on_e__t(t %[1]s) %[1]s { p.rec("on_e__t", t); return t }
func (p *fxParser) on_list(xs []%[1]s) %[1]s { p.rec("on_list", xs); return %[2]s(str(xs)) }
func (p *fxParser) on_s(l %[1]s) %[1]s { p.rec("on_s", l); p.root = l; return l }
`, n, mk)
}

const nodeDecl = `
type Node struct{ S string }

func (n *Node) String() string { return n.S }
func mkNode(s string) *Node   { return &Node{S: s} }
`

func bindCases() []bindCase {
	var cs []bindCase
	add := func(name, pkg, imports, decls string, accept bool, diag string) {
		cs = append(cs, bindCase{name: name, pkg: pkg, imports: imports, decls: decls, accept: accept, diag: diag})
	}
	// ---- accepted layouts ---------------------------------------------------------------
	add("exact-pointer-types", "fx", "", nodeDecl+exactMethods("*Node", "mkNode"), true, "")
	add("value-struct-types", "fx", "", `
type Val struct{ S string }

func (v Val) String() string { return v.S }
func mkVal(s string) Val    { return Val{S: s} }
`+exactMethods("Val", "mkVal"), true, "")
	add("interface-typed-parameters", "fx", "", nodeDecl+`
type Expr interface{ String() string }

func (p *fxParser) on_t(tok any) *Node { p.rec("on_t", tok); return mkNode(tok.(Token).String()) }
func (p *fxParser) on_e__bin(l Expr, op fmt.Stringer, r Expr) *Node { p.rec("on_e__bin", l, op, r); return mkNode("(" + str(l) + "+" + str(r) + ")") }
func (p *fxParser) on_e__t(t Expr) *Node { p.rec("on_e__t", t); return t.(*Node) }
func (p *fxParser) on_list(xs any) *Node { p.rec("on_list", xs); return mkNode(str(xs)) }
func (p *fxParser) on_s(l any) *Node { p.rec("on_s", l); p.root = l; return l.(*Node) }
`, true, "")
	add("interface-typed-rules", "fx", "", nodeDecl+`
type Expr interface{ String() string }
`+exactMethods("Expr", "mkNode"), true, "")
	add("named-slice-parameter-for-a-list-term", "fx", "", nodeDecl+`
type Nodes []*Node

func (p *fxParser) on_t(tok Token) *Node { p.rec("on_t", tok); return mkNode(tok.String()) }
func (p *fxParser) on_e__bin(l *Node, op Token, r *Node) *Node { p.rec("on_e__bin", l, op, r); return mkNode("(" + str(l) + "+" + str(r) + ")") }
func (p *fxParser) on_e__t(t *Node) *Node { p.rec("on_e__t", t); return t }
func (p *fxParser) on_list(xs Nodes) *Node { p.rec("on_list", xs); return mkNode(str(xs)) }
func (p *fxParser) on_s(l *Node) *Node { p.rec("on_s", l); p.root = l; return l }
`, true, "")
	add("named-and-unnamed-function-types", "fx", "", `
type Thunk func() string

func mk(s string) Thunk { return func() string { return s } }

func (p *fxParser) on_t(tok Token) Thunk { p.rec("on_t", tok); return mk(tok.String()) }
func (p *fxParser) on_e__bin(l func() string, op Token, r func() string) Thunk { p.rec("on_e__bin", l, op, r); return mk("(" + l() + "+" + r() + ")") }
func (p *fxParser) on_e__t(t Thunk) Thunk { p.rec("on_e__t", t); return t }
func (p *fxParser) on_list(xs []Thunk) Thunk { p.rec("on_list", xs); return mk(str(xs)) }
func (p *fxParser) on_s(l Thunk) Thunk { p.rec("on_s", l); p.root = l; return l }
`, true, "")
	add("unnamed-composite-types", "fx", "", `
func (p *fxParser) on_t(tok Token) []string { p.rec("on_t", tok); return []string{tok.String()} }
func (p *fxParser) on_e__bin(l struct{ S string }, op Token, r []string) struct{ S string } {
	p.rec("on_e__bin", l, op, r)
	return struct{ S string }{"(" + l.S + "+" + r[0] + ")"}
}
func (p *fxParser) on_e__t(t []string) struct{ S string } { p.rec("on_e__t", t); return struct{ S string }{t[0]} }
func (p *fxParser) on_list(xs []struct{ S string }) map[string]bool {
	p.rec("on_list", xs)
	var parts []string
	for _, x := range xs {
		parts = append(parts, x.S)
	}
	return map[string]bool{"[" + strings.Join(parts, ",") + "]": true}
}
func (p *fxParser) on_s(l map[string]bool) *string {
	p.rec("on_s", l)
	for k := range l {
		p.root = k
		return &k
	}
	return nil
}
`, true, "")
	add("generic-types", "fx", "", `
type Box[T any] struct {
	V T
	S string
}

func (b *Box[T]) String() string { return b.S }

func (p *fxParser) on_t(tok Token) Box[int] { p.rec("on_t", tok); return Box[int]{V: tok.Pos, S: tok.String()} }
func (p *fxParser) on_e__bin(l *Box[string], op Token, r Box[int]) *Box[string] {
	p.rec("on_e__bin", l, op, r)
	return &Box[string]{V: "x", S: "(" + l.S + "+" + r.S + ")"}
}
func (p *fxParser) on_e__t(t Box[int]) *Box[string] { p.rec("on_e__t", t); return &Box[string]{V: "x", S: t.S} }
func (p *fxParser) on_list(xs []*Box[string]) *Box[[]int] { p.rec("on_list", xs); return &Box[[]int]{V: []int{1}, S: str(xs)} }
func (p *fxParser) on_s(l *Box[[]int]) *Box[[]int] { p.rec("on_s", l); p.root = l; return l }
`, true, "")
	add("imported-types", "fx", `"go/token"
	"math/big"`, `
type Leaf struct {
	P token.Position
}

func (p *fxParser) on_t(tok Token) token.Position { p.rec("on_t", tok); return token.Position{Filename: tok.String(), Line: 1} }
func (p *fxParser) on_e__bin(l *big.Int, op Token, r token.Position) *big.Int {
	p.rec("on_e__bin", l, op, r)
	return new(big.Int).Add(new(big.Int).Mul(l, big.NewInt(10)), big.NewInt(int64(len(r.Filename))))
}
func (p *fxParser) on_e__t(t token.Position) *big.Int { p.rec("on_e__t", t); return big.NewInt(int64(len(t.Filename))) }
func (p *fxParser) on_list(xs []*big.Int) []*big.Int { p.rec("on_list", xs); return xs }
func (p *fxParser) on_s(l []*big.Int) *big.Int { p.rec("on_s", l); p.root = l; return l[0] }
`, true, "")
	add("imported-package-sharing-the-package-name", "token", `gotoken "go/token"`, `
func (p *fxParser) on_t(tok Token) gotoken.Position { p.rec("on_t", tok); return gotoken.Position{Filename: tok.String(), Line: 1} }
func (p *fxParser) on_e__bin(l *gotoken.Position, op Token, r gotoken.Position) *gotoken.Position {
	p.rec("on_e__bin", l, op, r)
	return &gotoken.Position{Filename: "(" + l.Filename + "+" + r.Filename + ")", Line: 1}
}
func (p *fxParser) on_e__t(t gotoken.Position) *gotoken.Position { p.rec("on_e__t", t); return &t }
func (p *fxParser) on_list(xs []*gotoken.Position) *gotoken.Position {
	p.rec("on_list", xs)
	var parts []string
	for _, x := range xs {
		parts = append(parts, x.Filename)
	}
	return &gotoken.Position{Filename: "[" + strings.Join(parts, ",") + "]", Line: 1}
}
func (p *fxParser) on_s(l *gotoken.Position) *gotoken.Position { p.rec("on_s", l); p.root = l.Filename; return l }
`, true, "")
	add("shared-method-for-two-productions", "fx", "", nodeDecl+`
func (p *fxParser) on_t(tok Token) *Node { p.rec("on_t", tok); return mkNode(tok.String()) }
func (p *fxParser) on_e__bin(l *Node, op Token, r *Node) *Node { p.rec("on_e__bin", l, op, r); return mkNode("(" + str(l) + "+" + str(r) + ")") }
func (p *fxParser) on_e__t(t *Node) *Node { p.rec("on_e__t", t); return t }
func (p *fxParser) on_list(xs []*Node) *Node { p.rec("on_list", xs); return mkNode(str(xs)) }
func (p *fxParser) on_s(l *Node) *Node { p.rec("on_s", l); p.root = l; return l }
func (p *fxParser) helper_not_an_action(x int) int { return x }
`, true, "")
	add("variadic-parameter-for-a-list-term", "fx", "", nodeDecl+strings.Replace(exactMethods("*Node", "mkNode"), "on_list(xs []*Node)", "on_list(xs ...*Node)", 1), true, "")
	// ---- rejected layouts ---------------------------------------------------------------
	rej := func(name, methods, diag string) { add(name, "fx", "", nodeDecl+methods, false, diag) }
	base := map[string]string{
		"t":    `func (p *fxParser) on_t(tok Token) *Node { return mkNode(tok.String()) }`,
		"bin":  `func (p *fxParser) on_e__bin(l *Node, op Token, r *Node) *Node { return l }`,
		"et":   `func (p *fxParser) on_e__t(t *Node) *Node { return t }`,
		"list": `func (p *fxParser) on_list(xs []*Node) *Node { return xs[0] }`,
		"s":    `func (p *fxParser) on_s(l *Node) *Node { p.root = l; return l }`,
	}
	with := func(repl map[string]string, extra ...string) string {
		var sb strings.Builder
		for _, k := range []string{"t", "bin", "et", "list", "s"} {
			if v, ok := repl[k]; ok {
				sb.WriteString(v)
			} else {
				sb.WriteString(base[k])
			}
			sb.WriteString("\n")
		}
		for _, e := range extra {
			sb.WriteString(e + "\n")
		}
		return sb.String()
	}
	rej("production-without-method", with(map[string]string{"et": ""}), "no matching action method")
	rej("two-methods-match-one-production", with(nil, `func (p *fxParser) on_e__t2(t *Node) *Node { return t }`), "multiple action methods")
	rej("two-methods-match-through-an-interface", with(nil, `func (p *fxParser) on_e__t2(t any) *Node { return nil }`), "multiple action methods")
	rej("wrong-parameter-count", with(map[string]string{"bin": `func (p *fxParser) on_e__bin(l *Node, r *Node) *Node { return l }`}), "")
	rej("unmatched-method", with(nil, `func (p *fxParser) on_e__extra(a, b, c, d *Node) *Node { return a }`), "on_e__extra")
	rej("rule-methods-return-different-types", with(map[string]string{"et": `func (p *fxParser) on_e__t(t *Node) Token { return Token{} }`}), "return type")
	rej("parameter-not-assignable", with(map[string]string{"et": `func (p *fxParser) on_e__t(t int) *Node { return nil }`}), "")
	rej("parameter-convertible-but-not-assignable", `type Other Node
`+with(map[string]string{"et": `func (p *fxParser) on_e__t(t *Other) *Node { return nil }`}), "")
	rej("numeric-parameter-convertible-but-not-assignable", `type Celsius float64
type Fahrenheit float64
func (p *fxParser) on_t(tok Token) Celsius { return 1 }
func (p *fxParser) on_e__bin(l *Node, op Token, r Celsius) *Node { return l }
func (p *fxParser) on_e__t(t Fahrenheit) *Node { return nil }
func (p *fxParser) on_list(xs []*Node) *Node { return xs[0] }
func (p *fxParser) on_s(l *Node) *Node { p.root = l; return l }
`, "")
	rej("method-for-unknown-rule", with(nil, `func (p *fxParser) on_nosuch(t *Node) *Node { return t }`), "on_nosuch")
	rej("method-returning-two-values", with(map[string]string{"et": `func (p *fxParser) on_e__t(t *Node) (*Node, error) { return t, nil }`}), "on_e__t")
	rej("method-returning-nothing", with(map[string]string{"et": `func (p *fxParser) on_e__t(t *Node) { }`}), "on_e__t")
	rej("list-parameter-of-element-type", with(map[string]string{"list": `func (p *fxParser) on_list(xs *Node) *Node { return xs }`}), "")
	rej("token-parameter-for-a-rule-term", with(map[string]string{"et": `func (p *fxParser) on_e__t(t Token) *Node { return nil }`}), "")
	// ---- Go packages that are missing, empty, ill-typed or lack Token / the parser struct (C12) ----
	good := bindCase{pkg: "fx", decls: nodeDecl + exactMethods("*Node", "mkNode")}.userCode()
	any := func(name string, files map[string]string) {
		cs = append(cs, bindCase{name: "go-package/" + name, pkg: "fx", either: true, raw: files})
	}
	any("no-go-files", map[string]string{})
	any("syntax-error", map[string]string{"user.go": good + "\nfunc broken( {\n"})
	any("type-error", map[string]string{"user.go": good + "\nvar x int = \"s\"\n"})
	any("no-token-type", map[string]string{"user.go": strings.Replace(strings.Replace(good, "type Token struct", "type Tok struct", 1), "func (t Token) String", "func (t Tok) String", 1)})
	any("token-is-a-variable", map[string]string{"user.go": "package fx\n\nvar Token int\n\ntype P struct{ lox }\n"})
	any("token-is-a-function", map[string]string{"user.go": "package fx\n\nfunc Token() {}\n\ntype P struct{ lox }\n"})
	any("no-parser-struct", map[string]string{"user.go": "package fx\n\ntype Token struct{}\n"})
	any("two-parser-structs", map[string]string{"user.go": good + "\ntype other struct{ lox }\n"})
	any("generic-parser-struct", map[string]string{"user.go": "package fx\n\ntype Token struct{}\n\ntype P[T any] struct {\n\tlox\n\tx T\n}\n"})
	any("parser-embeds-pointer", map[string]string{"user.go": "package fx\n\ntype Token struct{}\n\ntype P struct{ *lox }\n"})
	any("parser-struct-alias", map[string]string{"user.go": good + "\ntype alias = fxParser\n"})
	any("user-defines-Error", map[string]string{"user.go": good + "\ntype Error struct{}\n"})
	any("user-defines-lox", map[string]string{"user.go": good + "\ntype lox struct{}\n"})
	any("only-a-test-file", map[string]string{"user_test.go": "package fx\n\ntype Token struct{}\n\ntype P struct{ lox }\n"})
	any("external-test-package-beside", map[string]string{"user.go": good, "zz_user_test.go": "package fx_test\n"})
	any("second-file-sorting-first", map[string]string{"user.go": good, "aaa.go": "package fx\n\nvar helper = 1\n"})
	any("files-of-two-packages", map[string]string{"user.go": good, "zzz.go": "package other\n"})
	any("empty-go-file", map[string]string{"user.go": ""})
	any("action-on-embedded-type", map[string]string{"user.go": good + "\ntype base struct{}\n\nfunc (base) on_extra(t Token) *Node { return nil }\n"})
	any("build-tagged-out", map[string]string{"user.go": "//go:build neverset\n\n" + good})
	return cs
}

func (c bindCase) userCode() string {
	imp := "\"fmt\"\n\t\"reflect\"\n\t\"strings\"\n"
	if c.imports != "" {
		imp += "\t" + c.imports + "\n"
	}
	return "package " + c.pkg + "\n\nimport (\n\t" + imp + ")\n\nvar _ = strings.Join\n" + bindCommon + c.decls
}

const bindDriver = `package main

import (
	"fmt"

	fx "fx"
)

func main() {
	// NUM PLUS NUM COMMA NUM
	fmt.Println(fx.Run([]int{2, 3, 2, 4, 2}))
}
`

func TestActionBinding(t *testing.T) {
	rep := newReport("action-binding")
	cases := bindCases()
	parallel(len(cases), func(i int) {
		c := cases[i]
		rep.count(true)
		files := map[string]string{"parser.lox": bindLox}
		if c.raw != nil {
			for n, t := range c.raw {
				files[n] = t
			}
		} else {
			files["user.go"] = c.userCode()
		}
		g := generate("bind", files, false)
		defer cleanup(g.dir)
		if g.panicked != "" {
			rep.fail("C12/no-panic/"+panicClass(g.panicked), c.name, g.panicked)
			return
		}
		if c.either {
			if !g.ok {
				if strings.TrimSpace(g.diag) == "" {
					rep.fail("C12/failure-has-a-diagnostic", c.name, "Generate failed without any diagnostic")
				}
				return
			}
			for _, f := range []string{"base.gen.go", "lexer.gen.go", "parser.gen.go"} {
				if _, err := os.Stat(filepath.Join(g.dir, f)); err != nil {
					rep.fail("C12/success-writes-all-generated-files", c.name, "Generate succeeded but "+f+" is missing")
					return
				}
			}
			cmd := exec.Command("go", "build", "./...")
			cmd.Dir = g.dir
			cmd.Env = goEnv()
			if o, err := cmd.CombinedOutput(); err != nil {
				rep.fail("C06/generated-files-compile", c.name, tailStr(string(o), 500))
			}
			return
		}
		if !c.accept {
			if g.ok {
				rep.fail("C06/binding-verdict/ill-bound-package-rejected", c.name, "lox succeeded")
				return
			}
			if strings.TrimSpace(g.diag) == "" {
				rep.fail("C06/binding-verdict/rejection-has-a-diagnostic", c.name, "failed without any diagnostic")
			} else if c.diag != "" && !strings.Contains(g.diag, c.diag) {
				rep.fail("C06/binding-verdict/diagnostic-names-production-or-method", c.name, fmt.Sprintf("diagnostic lacks %q: %s", c.diag, firstLine(g.diag)))
			}
			return
		}
		if !g.ok {
			rep.fail("C06/binding-verdict/well-bound-package-accepted", c.name, firstLine(g.diag))
			return
		}
		os.MkdirAll(filepath.Join(g.dir, "cmd", "run"), 0o755)
		os.WriteFile(filepath.Join(g.dir, "cmd", "run", "main.go"), []byte(bindDriver), 0o644)
		cmd := exec.Command("go", "build", "-o", "prog", "./cmd/run")
		cmd.Dir = g.dir
		cmd.Env = goEnv()
		if o, err := cmd.CombinedOutput(); err != nil {
			rep.fail("C06/generated-files-compile", c.name, tailStr(string(o), 500))
			return
		}
		out, err := exec.Command(filepath.Join(g.dir, "prog")).CombinedOutput()
		got := strings.TrimSpace(string(out))
		if err != nil {
			rep.fail("C03+C06/values-flow-to-action-parameters", c.name, "the program failed: "+tailStr(got, 400))
			return
		}
		if !strings.HasPrefix(got, "ok=true ") {
			rep.fail("C03+C06/values-flow-to-action-parameters", c.name, "the sentence NUM PLUS NUM COMMA NUM was not parsed: "+got)
			return
		}
		if !strings.HasSuffix(got, "zeros=[]") {
			rep.fail("C03+C06/values-flow-to-action-parameters", c.name, "an action parameter received a zero value instead of the value of its term: "+got)
			return
		}
		rep.sample(c.name + ": " + got)
	})
	rep.done(t, false, fmt.Sprintf("%d user packages (type shapes: pointer, value, interface-typed parameters and rules, named slice for a list term, named/unnamed function types, unnamed composites, generic instances, imported types, an import sharing the package's name; 14 ill-bound layouts), one sentence each", len(cases)))
}
