package zzverif

import (
	"bytes"
	"encoding/json"
	"fmt"
	gotoken "go/token"
	"os"
	"os/exec"
	"path/filepath"
	"strings"
	"time"

	"github.com/dcaiafa/lox/internal/base/errlogger"
	"github.com/dcaiafa/lox/internal/codegen"
)

// Level-2 harness: run the real generator on a fixture package, compile the
// generated code together with a small driver program, run it on a batch of
// inputs and hand the outcomes back to the test for comparison with a reference.

func scratchDir() string {
	if d := os.Getenv("LOXVC_SCRATCH"); d != "" {
		return d
	}
	return os.TempDir()
}

func repoDir() string {
	if d := os.Getenv("LOXVC_REPO"); d != "" {
		return d
	}
	return "/repo"
}

func goEnv() []string {
	return append(os.Environ(), "GOFLAGS=-mod=mod", "GOPROXY=off", "GOSUMDB=off", "GOTOOLCHAIN=local", "CGO_ENABLED=0")
}

type genResult struct {
	ok       bool
	diag     string
	panicked string
	dir      string
	buildErr string
}

// generate writes the fixture files, runs codegen.Generate in process and builds the program.
func generate(name string, files map[string]string, build bool) (res genResult) {
	dir, err := os.MkdirTemp(scratchDir(), "fx-"+name+"-")
	if err != nil {
		return genResult{diag: err.Error()}
	}
	res.dir = dir
	gomod := "module fx\n\ngo 1.23.0\n\nrequire github.com/dcaiafa/loxlex v0.5.0\n"
	os.WriteFile(filepath.Join(dir, "go.mod"), []byte(gomod), 0o644)
	if sum, err := os.ReadFile(filepath.Join(repoDir(), "go.sum")); err == nil {
		os.WriteFile(filepath.Join(dir, "go.sum"), sum, 0o644)
	}
	for n, c := range files {
		os.WriteFile(filepath.Join(dir, n), []byte(c), 0o644)
	}
	var out bytes.Buffer
	func() {
		defer func() {
			if r := recover(); r != nil {
				res.panicked = fmt.Sprint(r)
			}
		}()
		fset := gotoken.NewFileSet()
		errs := errlogger.New(fset, &out)
		// go/packages inside Generate shells out to `go list`; give it the offline environment
		for _, kv := range []string{"GOFLAGS=-mod=mod", "GOPROXY=off", "GOSUMDB=off", "GOTOOLCHAIN=local"} {
			k, v, _ := strings.Cut(kv, "=")
			os.Setenv(k, v)
		}
		res.ok = codegen.Generate(&codegen.Config{Fset: fset, Errs: errs, Dir: dir})
	}()
	res.diag = out.String()
	if !res.ok || !build {
		return res
	}
	cmd := exec.Command("go", "build", "-o", "prog", ".")
	cmd.Dir = dir
	cmd.Env = goEnv()
	if o, err := cmd.CombinedOutput(); err != nil {
		res.buildErr = string(o)
	}
	return res
}

// runProg feeds one JSON value per line to the program and returns one JSON value per line.
func runProg(dir string, inputs []any, timeout time.Duration) ([]json.RawMessage, string) {
	var in bytes.Buffer
	enc := json.NewEncoder(&in)
	for _, x := range inputs {
		enc.Encode(x)
	}
	cmd := exec.Command(filepath.Join(dir, "prog"))
	cmd.Dir = dir
	cmd.Stdin = &in
	var out, errb bytes.Buffer
	cmd.Stdout = &out
	cmd.Stderr = &errb
	if err := cmd.Start(); err != nil {
		return nil, err.Error()
	}
	done := make(chan error, 1)
	go func() { done <- cmd.Wait() }()
	var werr error
	select {
	case werr = <-done:
	case <-time.After(timeout):
		cmd.Process.Kill()
		<-done
		werr = fmt.Errorf("timeout after %s", timeout)
	}
	var res []json.RawMessage
	dec := json.NewDecoder(&out)
	for dec.More() {
		var m json.RawMessage
		if err := dec.Decode(&m); err != nil {
			break
		}
		res = append(res, m)
	}
	msg := ""
	if werr != nil {
		msg = werr.Error() + ": " + tailStr(errb.String(), 600)
	}
	return res, msg
}

func tailStr(s string, n int) string {
	if len(s) > n {
		return s[len(s)-n:]
	}
	return s
}

func cleanup(dir string) {
	if dir != "" {
		os.RemoveAll(dir)
	}
}
