package zzverif

import (
	"encoding/json"
	"fmt"
	"strings"
	"testing"
	"time"

	"github.com/dcaiafa/lox/internal/parsergen/lr1"
)

// ---- parser fixtures ----------------------------------------------------------------------------

type pTerm struct {
	kind string // tok rule opt star plus starf list listopt error
	name string // token or rule name of the element
	sep  string // separator token (list, listopt)
}

type pProd struct{ terms []pTerm }

type pRule struct {
	name  string
	prods []pProd
}

type pSpec struct {
	name    string
	tokens  []string // token i has terminal index i+2
	rules   []pRule  // rules[0] is the start rule
	bounds  bool
	boundsFirst bool // _onBounds is declared before the action methods
	literals    bool // tokens are written as their literal ('a') in the parser section
	rootNil     bool // the start rule's action has result type any and returns nil
	discard string // token whose Discard() is true (for *!)
	maxLen  int
	withErr bool // inputs also contain lexer ERROR tokens
}

func tk(n string) pTerm         { return pTerm{kind: "tok", name: n} }
func rl(n string) pTerm         { return pTerm{kind: "rule", name: n} }
func sugar(k string, e pTerm) pTerm { e2 := e; return pTerm{kind: k, name: e.name, sep: e2.kind} }
func listOf(k string, e pTerm, sep string) pTerm {
	return pTerm{kind: k, name: e.name, sep: sep + "|" + e.kind}
}

func (t pTerm) elemIsTok() bool {
	switch t.kind {
	case "tok":
		return true
	case "rule", "error":
		return false
	case "list", "listopt":
		return strings.HasSuffix(t.sep, "|tok")
	}
	return t.sep == "tok"
}

func (t pTerm) sepTok() string {
	if i := strings.Index(t.sep, "|"); i >= 0 {
		return t.sep[:i]
	}
	return ""
}

func (s pSpec) tokIndex(n string) int {
	for i, t := range s.tokens {
		if t == n {
			return i + 2
		}
	}
	panic("no token " + n)
}

func (s pSpec) rule(n string) *pRule {
	for i := range s.rules {
		if s.rules[i].name == n {
			return &s.rules[i]
		}
	}
	panic("no rule " + n)
}

func (s pSpec) termText(t pTerm) string {
	ref := func(name string, isTok bool) string {
		if s.literals && isTok {
			return fmt.Sprintf("'%c'", 'a'+s.tokIndex(name)-2)
		}
		return name
	}
	switch t.kind {
	case "tok":
		return ref(t.name, true)
	case "list":
		return fmt.Sprintf("@list(%s, %s)", ref(t.name, t.elemIsTok()), ref(t.sepTok(), true))
	case "listopt":
		return fmt.Sprintf("@list(%s, %s)?", ref(t.name, t.elemIsTok()), ref(t.sepTok(), true))
	}
	switch t.kind {
	case "tok", "rule":
		return t.name
	case "opt":
		return t.name + "?"
	case "star":
		return t.name + "*"
	case "plus":
		return t.name + "+"
	case "starf":
		return t.name + "*!"
	case "list":
		return fmt.Sprintf("@list(%s, %s)", t.name, t.sepTok())
	case "listopt":
		return fmt.Sprintf("@list(%s, %s)?", t.name, t.sepTok())
	case "error":
		return "@error"
	}
	panic(t.kind)
}

func (s pSpec) loxText() string {
	var sb strings.Builder
	sb.WriteString("@lexer\n")
	for i, t := range s.tokens {
		fmt.Fprintf(&sb, "%s = '%c'\n", t, 'a'+i)
	}
	sb.WriteString("@parser\n")
	for i, r := range s.rules {
		if i == 0 {
			sb.WriteString("@start ")
		}
		fmt.Fprintf(&sb, "%s = ", r.name)
		for k, p := range r.prods {
			if k > 0 {
				sb.WriteString("\n    | ")
			}
			if len(p.terms) == 0 {
				sb.WriteString("@empty")
			}
			for j, t := range p.terms {
				if j > 0 {
					sb.WriteString(" ")
				}
				sb.WriteString(s.termText(t))
			}
		}
		sb.WriteString("\n")
	}
	return sb.String()
}

func (s pSpec) goType(t pTerm) string {
	elem := "*Node"
	if t.elemIsTok() {
		elem = "Token"
	}
	switch t.kind {
	case "tok", "rule", "opt":
		return elem
	case "error":
		return "Error"
	}
	return "[]" + elem
}

func (s pSpec) userCode() string {
	var sb strings.Builder
	sb.WriteString(parseDriverHead)
	disc := -1
	if s.discard != "" {
		disc = s.tokIndex(s.discard)
	}
	fmt.Fprintf(&sb, "const discardType = %d\n\n", disc)
	onBounds := "func (p *fxParser) _onBounds(r any, begin, end Token) {\n\tp.bounds = append(p.bounds, boundsCall{show(r), begin.Pos, end.Pos})\n}\n\n"
	if s.bounds && s.boundsFirst {
		sb.WriteString(onBounds)
	}
	for _, r := range s.rules {
		for k, p := range r.prods {
			name := "on_" + r.name
			if len(r.prods) > 1 {
				name = fmt.Sprintf("on_%s__p%d", r.name, k)
			}
			fmt.Fprintf(&sb, "func (p *fxParser) %s(", name)
			for j, t := range p.terms {
				if j > 0 {
					sb.WriteString(", ")
				}
				fmt.Fprintf(&sb, "a%d %s", j, s.goType(t))
			}
			if s.rootNil && r.name == s.rules[0].name {
				fmt.Fprintf(&sb, ") any {\n\tp.mk(%q, %d", r.name, k)
				for j := range p.terms {
					fmt.Fprintf(&sb, ", a%d", j)
				}
				sb.WriteString(")\n\treturn nil\n}\n\n")
				continue
			}
			fmt.Fprintf(&sb, ") *Node {\n\treturn p.mk(%q, %d", r.name, k)
			for j := range p.terms {
				fmt.Fprintf(&sb, ", a%d", j)
			}
			sb.WriteString(")\n}\n\n")
		}
	}
	if s.bounds && !s.boundsFirst {
		sb.WriteString(onBounds)
	}
	return sb.String()
}

const parseDriverHead = `package main

import (
	"bufio"
	"encoding/json"
	"fmt"
	"os"
	"strings"
	"time"
)

type Token struct {
	Type int
	Pos  int
}

func (t Token) Discard() bool { return t.Type == discardType }

type Node struct {
	Rule string
	Prod int
	Seq  int
	Kids []any
}

func (n *Node) Discard() bool {
	if n == nil || len(n.Kids) == 0 {
		return false
	}
	t, ok := n.Kids[0].(Token)
	return ok && t.Type == discardType
}

type boundsCall struct {
	What  string
	Begin int
	End   int
}

type fxParser struct {
	lox
	seq    int
	errs   [][2]int
	bounds []boundsCall
	root   *Node
}

func (p *fxParser) mk(rule string, prod int, kids ...any) *Node {
	n := &Node{Rule: rule, Prod: prod, Seq: p.seq, Kids: kids}
	p.seq++
	for _, k := range kids {
		if e, ok := k.(Error); ok {
			p.errs = append(p.errs, [2]int{e.Token.Type, e.Token.Pos})
		}
	}
	p.root = n
	return n
}

func show(v any) string {
	switch x := v.(type) {
	case Token:
		if x.Type == 0 && x.Pos == 0 {
			return "_"
		}
		return fmt.Sprintf("t%d@%d", x.Type, x.Pos)
	case *Node:
		if x == nil {
			return "_"
		}
		var ks []string
		for _, k := range x.Kids {
			ks = append(ks, show(k))
		}
		return fmt.Sprintf("(%s#%d:%d %s)", x.Rule, x.Prod, x.Seq, strings.Join(ks, " "))
	case []Token:
		var ks []string
		for _, k := range x {
			ks = append(ks, show(k))
		}
		return "[" + strings.Join(ks, " ") + "]"
	case []*Node:
		var ks []string
		for _, k := range x {
			ks = append(ks, show(k))
		}
		return "[" + strings.Join(ks, " ") + "]"
	case Error:
		return fmt.Sprintf("(error t%d@%d)", x.Token.Type, x.Token.Pos)
	case nil:
		return "_"
	}
	return fmt.Sprintf("?%T", v)
}

type fakeLexer struct {
	toks []int
	i    int
}

func (l *fakeLexer) ReadToken() (Token, int) {
	if l.i >= len(l.toks) {
		l.i++
		return Token{Type: 0, Pos: len(l.toks) + 1}, 0
	}
	t := Token{Type: l.toks[l.i], Pos: l.i + 1}
	l.i++
	return t, t.Type
}

type result struct {
	OK     bool         ` + "`json:\"ok\"`" + `
	Tree   string       ` + "`json:\"tree\"`" + `
	Errs   [][2]int     ` + "`json:\"errs\"`" + `
	Bounds []boundsCall ` + "`json:\"bounds\"`" + `
	Panic  string       ` + "`json:\"panic\"`" + `
	Hung   bool         ` + "`json:\"hung\"`" + `
	Reads  int          ` + "`json:\"reads\"`" + `
}

func runOne(toks []int) (res result) {
	done := make(chan result, 1)
	go func() {
		var r result
		defer func() {
			if x := recover(); x != nil {
				r.Panic = fmt.Sprint(x)
			}
			done <- r
		}()
		p := &fxParser{}
		lx := &fakeLexer{toks: toks}
		r.OK = p.parse(lx)
		r.Tree = show(p.root)
		r.Errs = p.errs
		r.Bounds = p.bounds
		r.Reads = lx.i
	}()
	select {
	case r := <-done:
		return r
	case <-time.After(3 * time.Second):
		return result{Hung: true}
	}
}

func main() {
	in := bufio.NewScanner(os.Stdin)
	in.Buffer(make([]byte, 1<<20), 1<<20)
	out := json.NewEncoder(os.Stdout)
	hung := 0
	for in.Scan() {
		var toks []int
		if err := json.Unmarshal(in.Bytes(), &toks); err != nil {
			panic(err)
		}
		if hung >= 3 {
			out.Encode(result{Hung: true})
			continue
		}
		r := runOne(toks)
		if r.Hung {
			hung++
		}
		out.Encode(r)
	}
}

`

// ---- reference: the desugared grammar (documentation of ? * + *! @list) as an lr1.Grammar for Earley ----

type refParser struct {
	spec  pSpec
	g     *lr1.Grammar
	ref   *refGrammar
	terms map[string]*lr1.Terminal
}

func newRefParser(s pSpec, withErrorProds bool) *refParser {
	g := lr1.NewGrammar()
	rp := &refParser{spec: s, g: g, terms: map[string]*lr1.Terminal{}}
	for _, t := range s.tokens {
		rp.terms[t] = g.AddTerminal(t)
	}
	rules := map[string]*lr1.Rule{}
	for _, r := range s.rules {
		rules[r.name] = g.AddRule(r.name)
	}
	helper := map[string]*lr1.Rule{}
	elem := func(t pTerm) lr1.Term {
		if t.elemIsTok() {
			return rp.terms[t.name]
		}
		return rules[t.name]
	}
	var termOf func(t pTerm) lr1.Term
	termOf = func(t pTerm) lr1.Term {
		switch t.kind {
		case "tok":
			return rp.terms[t.name]
		case "rule":
			return rules[t.name]
		case "error":
			return g.ErrorTerminal
		}
		key := s.termText(t)
		if h, ok := helper[key]; ok {
			return h
		}
		h := g.AddRule(key)
		helper[key] = h
		e := elem(t)
		switch t.kind {
		case "opt":
			g.AddProd(h, e)
			g.AddProd(h)
		case "star", "starf":
			g.AddProd(h, h, e)
			g.AddProd(h)
		case "plus":
			g.AddProd(h, h, e)
			g.AddProd(h, e)
		case "list":
			g.AddProd(h, h, rp.terms[t.sepTok()], e)
			g.AddProd(h, e)
		case "listopt":
			inner := g.AddRule(key + "#inner")
			g.AddProd(inner, inner, rp.terms[t.sepTok()], e)
			g.AddProd(inner, e)
			g.AddProd(h, inner)
			g.AddProd(h)
		}
		return h
	}
	for _, r := range s.rules {
		for _, p := range r.prods {
			hasErr := false
			var ts []lr1.Term
			for _, t := range p.terms {
				if t.kind == "error" {
					hasErr = true
				}
				ts = append(ts, termOf(t))
			}
			if hasErr && !withErrorProds {
				continue
			}
			g.AddProd(rules[r.name], ts...)
		}
	}
	g.SetStart(rules[s.rules[0].name])
	rp.ref = newRef(g)
	return rp
}

// viablePrefixLen returns the length of the longest prefix of w that is a prefix of some sentence.
func (rp *refParser) viablePrefixLen(w []int) int {
	// a prefix u is viable iff the Earley set after scanning u is non-empty; reuse earley on growing prefixes
	for n := len(w); n >= 0; n-- {
		if rp.ref.prefixViable(w[:n]) {
			return n
		}
	}
	return -1
}

// prefixViable: is w a prefix of some sentence? (Earley: the set after the last scan is non-empty.)
func (r *refGrammar) prefixViable(w []int) bool {
	n := len(w)
	sets := make([]map[eItem]bool, n+1)
	order := make([][]eItem, n+1)
	for i := range sets {
		sets[i] = map[eItem]bool{}
	}
	add := func(k int, it eItem) {
		if !sets[k][it] {
			sets[k][it] = true
			order[k] = append(order[k], it)
		}
	}
	add(0, eItem{0, 0, 0})
	for k := 0; k <= n; k++ {
		for idx := 0; idx < len(order[k]); idx++ {
			it := order[k][idx]
			p := r.g.Prods[it.prod]
			if it.dot == len(p.Terms) {
				for _, o := range order[it.origin] {
					op := r.g.Prods[o.prod]
					if o.dot < len(op.Terms) {
						if rule, ok := op.Terms[o.dot].(*lr1.Rule); ok && rule == p.Rule {
							add(k, eItem{o.prod, o.dot + 1, o.origin})
						}
					}
				}
				continue
			}
			switch t := p.Terms[it.dot].(type) {
			case *lr1.Rule:
				for _, q := range r.prodsOf[t] {
					add(k, eItem{q.Index, 0, k})
				}
				for _, c := range order[k] {
					cp := r.g.Prods[c.prod]
					if c.origin == k && c.dot == len(cp.Terms) && cp.Rule == t {
						add(k, eItem{it.prod, it.dot + 1, it.origin})
					}
				}
			case *lr1.Terminal:
				if k < n && t.Index == w[k] {
					add(k+1, eItem{it.prod, it.dot + 1, it.origin})
				}
			}
		}
		if k < n && len(order[k+1]) == 0 {
			return false
		}
	}
	// productive check is not needed: fixture grammars have no useless rules
	return len(order[n]) > 0
}

// ---- tree checking ------------------------------------------------------------------------------------

type sx struct {
	kind  string // node tok list nil error
	rule  string
	prod  int
	seq   int
	typ   int
	pos   int
	kids  []*sx
}

func parseSx(s string) (*sx, error) {
	p := &sxParser{s: s}
	n := p.parse()
	if p.err != nil {
		return nil, p.err
	}
	return n, nil
}

type sxParser struct {
	s   string
	i   int
	err error
}

func (p *sxParser) ws() {
	for p.i < len(p.s) && p.s[p.i] == ' ' {
		p.i++
	}
}

func (p *sxParser) parse() *sx {
	p.ws()
	if p.i >= len(p.s) {
		p.err = fmt.Errorf("unexpected end")
		return nil
	}
	switch c := p.s[p.i]; {
	case c == '_':
		p.i++
		return &sx{kind: "nil"}
	case c == 't':
		var typ, pos int
		n, _ := fmt.Sscanf(p.s[p.i:], "t%d@%d", &typ, &pos)
		if n != 2 {
			p.err = fmt.Errorf("bad token at %d", p.i)
			return nil
		}
		for p.i < len(p.s) && p.s[p.i] != ' ' && p.s[p.i] != ')' && p.s[p.i] != ']' {
			p.i++
		}
		return &sx{kind: "tok", typ: typ, pos: pos}
	case c == '[':
		p.i++
		n := &sx{kind: "list"}
		for {
			p.ws()
			if p.i < len(p.s) && p.s[p.i] == ']' {
				p.i++
				return n
			}
			k := p.parse()
			if p.err != nil {
				return nil
			}
			n.kids = append(n.kids, k)
		}
	case c == '(':
		p.i++
		j := p.i
		for j < len(p.s) && p.s[j] != ' ' && p.s[j] != ')' {
			j++
		}
		head := p.s[p.i:j]
		p.i = j
		n := &sx{kind: "node"}
		if head == "error" {
			n.kind = "error"
		} else {
			h := strings.FieldsFunc(head, func(r rune) bool { return r == '#' || r == ':' })
			if len(h) != 3 {
				p.err = fmt.Errorf("bad head %q", head)
				return nil
			}
			n.rule = h[0]
			fmt.Sscan(h[1], &n.prod)
			fmt.Sscan(h[2], &n.seq)
		}
		for {
			p.ws()
			if p.i < len(p.s) && p.s[p.i] == ')' {
				p.i++
				return n
			}
			k := p.parse()
			if p.err != nil {
				return nil
			}
			n.kids = append(n.kids, k)
		}
	}
	p.err = fmt.Errorf("unexpected %q at %d", p.s[p.i], p.i)
	return nil
}

type treeChecker struct {
	spec   pSpec
	seqs   []int  // action order in post-order
	yield  []*sx  // token leaves and error markers in order
	prob   string
	nodes  int
}

func (c *treeChecker) fail(f string, a ...any) {
	if c.prob == "" {
		c.prob = fmt.Sprintf(f, a...)
	}
}

func (c *treeChecker) elem(t pTerm, k *sx) {
	if t.elemIsTok() {
		if k.kind != "tok" || k.typ != c.spec.tokIndex(t.name) {
			c.fail("expected token %s, got %+v", t.name, *k)
			return
		}
		c.yield = append(c.yield, k)
		return
	}
	c.node(k, t.name)
}

func (c *treeChecker) node(n *sx, rule string) {
	if n == nil || n.kind != "node" || n.rule != rule {
		c.fail("expected a node of rule %s", rule)
		return
	}
	r := c.spec.rule(rule)
	if n.prod < 0 || n.prod >= len(r.prods) {
		c.fail("rule %s has no production %d", rule, n.prod)
		return
	}
	p := r.prods[n.prod]
	if len(n.kids) != len(p.terms) {
		c.fail("%s#%d: %d children for %d terms", rule, n.prod, len(n.kids), len(p.terms))
		return
	}
	for i, t := range p.terms {
		k := n.kids[i]
		switch t.kind {
		case "tok", "rule":
			c.elem(t, k)
		case "error":
			if k.kind != "error" {
				c.fail("%s#%d: term %d should be an Error", rule, n.prod, i)
				return
			}
			c.yield = append(c.yield, k)
		case "opt":
			if k.kind != "nil" {
				c.elem(t, k)
			}
		case "star", "plus", "starf", "list", "listopt":
			if k.kind != "list" {
				c.fail("%s#%d: term %d should be a list, got %s", rule, n.prod, i, k.kind)
				return
			}
			if (t.kind == "plus" || t.kind == "list") && len(k.kids) == 0 {
				c.fail("%s#%d: term %d (%s) delivered an empty list", rule, n.prod, i, t.kind)
			}
			for j, e := range k.kids {
				if j > 0 && (t.kind == "list" || t.kind == "listopt") {
					c.yield = append(c.yield, &sx{kind: "sep", typ: c.spec.tokIndex(t.sepTok())})
				}
				c.elem(t, e)
			}
		}
		if c.prob != "" {
			return
		}
	}
	c.seqs = append(c.seqs, n.seq)
	c.nodes++
}

// ---- fixtures --------------------------------------------------------------------------------------------

func parseFixtures() []pSpec {
	P := func(ts ...pTerm) pProd { return pProd{ts} }
	A, B, C := tk("A"), tk("B"), tk("C")
	return []pSpec{
		{name: "expr", tokens: []string{"A", "B", "C"}, maxLen: 6, rules: []pRule{
			{"e", []pProd{P(rl("e"), A, rl("t")), P(rl("t"))}},
			{"t", []pProd{P(B), P(C, rl("e"), C)}},
		}},
		{name: "sugar-tokens", tokens: []string{"A", "B", "C"}, maxLen: 6, rules: []pRule{
			{"s", []pProd{P(sugar("opt", A), sugar("star", B), sugar("plus", C))}},
		}},
		{name: "optional-after-same-type", tokens: []string{"A", "B", "C"}, maxLen: 6, rules: []pRule{
			{"s", []pProd{P(A, sugar("opt", A), B), P(rl("x"), sugar("opt", rl("x")), C)}},
			{"x", []pProd{P(B, B)}},
		}},
		{name: "sugar-rules", tokens: []string{"A", "B", "C", "D"}, maxLen: 5, rules: []pRule{
			{"s", []pProd{P(sugar("opt", rl("x")), sugar("star", rl("y")), tk("D"))}},
			{"x", []pProd{P(A)}},
			{"y", []pProd{P(B), P(C, B)}},
		}},
		{name: "list", tokens: []string{"A", "B", "C"}, maxLen: 6, rules: []pRule{
			{"s", []pProd{P(listOf("list", rl("x"), "A"))}},
			{"x", []pProd{P(B), P(C, B)}},
		}},
		{name: "listopt", tokens: []string{"A", "B", "C"}, maxLen: 6, rules: []pRule{
			{"s", []pProd{P(C, listOf("listopt", B, "A"), C)}},
		}},
		{name: "starf", tokens: []string{"A", "B", "C"}, discard: "A", maxLen: 6, rules: []pRule{
			{"s", []pProd{P(sugar("starf", rl("item")), C)}},
			{"item", []pProd{P(B), P(A, A)}},
		}},
		{name: "nullable", tokens: []string{"A", "B"}, maxLen: 6, rules: []pRule{
			{"s", []pProd{P(rl("x"), rl("y"))}},
			{"x", []pProd{P(A, rl("x")), P()}},
			{"y", []pProd{P(B), P()}},
		}},
		{name: "errors", tokens: []string{"A", "B", "C"}, maxLen: 5, withErr: true, rules: []pRule{
			{"s", []pProd{P(sugar("star", rl("st")))}},
			{"st", []pProd{P(rl("e"), C), P(pTerm{kind: "error"}, C)}},
			{"e", []pProd{P(B), P(rl("e"), A, B)}},
		}},
		{name: "errors-nested", tokens: []string{"A", "B", "C"}, maxLen: 5, withErr: true, rules: []pRule{
			{"s", []pProd{P(rl("blk")), P(pTerm{kind: "error"})}},
			{"blk", []pProd{P(A, sugar("star", rl("st")), C)}},
			{"st", []pProd{P(B), P(rl("blk")), P(pTerm{kind: "error"}, B)}},
		}},
		{name: "errors-empty-prefix", tokens: []string{"Z", "Q"}, maxLen: 4, withErr: true, rules: []pRule{
			{"s", []pProd{P(rl("pp"), pTerm{kind: "error"}, tk("Z")), P(tk("Q"))}},
			{"pp", []pProd{P(rl("xx"))}},
			{"xx", []pProd{P()}},
		}},
		// two optional lists that differ only in a separator written as a literal
		{name: "optional-lists-literal-separators", literals: true, tokens: []string{"LB", "RB", "LC", "RC", "ID", "COMMA", "SEMI"}, maxLen: 5, rules: []pRule{
			{"s", []pProd{P(tk("LB"), listOf("listopt", tk("ID"), "COMMA"), tk("RB"), tk("RB")), P(tk("LC"), listOf("listopt", tk("ID"), "SEMI"), tk("RC"))}},
		}},
		// @error as an alternative of a recursive rule: after the reduction of "s = @error" the
		// offending token is still the lookahead (LALR merges the lookaheads of that item)
		{name: "errors-alternative", tokens: []string{"A", "B", "C"}, maxLen: 5, withErr: true, rules: []pRule{
			{"s", []pProd{P(A, rl("s"), B), P(C), P(pTerm{kind: "error"})}},
		}},
		{name: "bounds", bounds: true, tokens: []string{"A", "B", "C", "D", "E", "F"}, maxLen: 4, rules: []pRule{
			{"s", []pProd{P(rl("m"), sugar("star", rl("y")), rl("z"), tk("D"))}},
			{"m", []pProd{P(sugar("opt", rl("x")), sugar("opt", tk("F")))}},
			{"x", []pProd{P(A)}},
			{"y", []pProd{P(B), P(C, B)}},
			{"z", []pProd{P(tk("E"), tk("E")), P()}},
		}},
		// the same feature detected when _onBounds is not the last method of the parser type
		{name: "bounds-declared-first", bounds: true, boundsFirst: true, rootNil: true, tokens: []string{"A", "B", "C"}, maxLen: 4, rules: []pRule{
			{"s", []pProd{P(rl("m"), sugar("star", rl("y")), tk("C"))}},
			{"m", []pProd{P(sugar("opt", tk("A")))}},
			{"y", []pProd{P(B)}},
		}},
	}
}

func init() {
	// "bounds" with an empty production for y would be ambiguous under y*; keep y non-nullable
	fx := parseFixtures()
	_ = fx
}

type parseOut struct {
	OK     bool   `json:"ok"`
	Tree   string `json:"tree"`
	Errs   [][2]int
	Bounds []struct {
		What       string
		Begin, End int
	}
	Panic string `json:"panic"`
	Hung  bool   `json:"hung"`
	Reads int    `json:"reads"`
}

func tokenStrings(nT, maxLen int, withErr bool) [][]int {
	syms := []int{}
	for t := 0; t < nT; t++ {
		syms = append(syms, t+2)
	}
	if withErr {
		syms = append(syms, 1)
	}
	out := [][]int{{}}
	prev := [][]int{{}}
	for l := 1; l <= maxLen; l++ {
		var cur [][]int
		for _, p := range prev {
			for _, s := range syms {
				cur = append(cur, append(append([]int{}, p...), s))
			}
		}
		out = append(out, cur...)
		prev = cur
	}
	return out
}

// TestGeneratedParser: the real generated parser (parse, _recover, _act, tables)
// compiled from fixture grammars, on every token string up to a bound, against
// Earley membership, the derivation-tree shape the documentation defines, and
// the error-reporting clauses of C09 (C01, C03, C09, C16, C06).
func TestGeneratedParser(t *testing.T) {
	rep := newReport("generated-parser")
	fx := parseFixtures()
	parallel(len(fx), func(i int) {
		spec := fx[i]
		name := spec.name
		g := generate("parse-"+name, map[string]string{"spec.lox": spec.loxText(), "main.go": spec.userCode()}, true)
		defer cleanup(g.dir)
		if g.panicked != "" {
			rep.fail("C12/no-panic", name, g.panicked)
			return
		}
		if !g.ok || g.buildErr != "" {
			rep.fail("C06/valid-fixture-generates-and-compiles", name, g.diag+g.buildErr)
			return
		}
		maxLen := spec.maxLen
		if thorough {
			maxLen++ // one more token per input in the thorough tier
		}
		inputs := tokenStrings(len(spec.tokens), maxLen, spec.withErr)
		var js []any
		for _, in := range inputs {
			js = append(js, in)
		}
		outs, msg := runProg(g.dir, js, 5*time.Minute)
		if msg != "" || len(outs) != len(inputs) {
			rep.fail("C09/terminates-without-panic", name, fmt.Sprintf("%d of %d inputs answered; %s", len(outs), len(inputs), msg))
			return
		}
		clean := newRefParser(spec, false) // the language, @error productions removed
		full := newRefParser(spec, true)   // @error read as a terminal
		for k, in := range inputs {
			var got parseOut
			json.Unmarshal(outs[k], &got)
			label := fmt.Sprintf("%s input=%s", name, joinInts(in))
			rep.count(len(in) > 2)
			if got.Hung {
				obl := "C09/parse-terminates"
				if spec.name == "errors-empty-prefix" {
					obl += "/error-term-after-empty-reductions"
				}
				rep.fail(obl, label, "parse() did not return within 3 s")
				continue
			}
			if got.Panic != "" {
				rep.fail("C09/parse-never-panics", label, got.Panic)
				continue
			}
			hasLexErr := false
			for _, x := range in {
				if x == 1 {
					hasLexErr = true
				}
			}
			sentence := !hasLexErr && clean.ref.earley(in)
			cleanSuccess := got.OK && len(got.Errs) == 0
			if sentence != cleanSuccess {
				rep.fail("C01/clean-success-iff-sentence", label, fmt.Sprintf("sentence=%v but parse ok=%v with %d errors delivered", sentence, got.OK, len(got.Errs)))
				continue
			}
			if !sentence {
				// C09: refused or an Error delivered; the first Error blames the first non-viable token
				if got.OK && len(got.Errs) == 0 {
					rep.fail("C09/non-sentence-never-accepted-silently", label, "parse returned true without delivering an Error")
					continue
				}
				if len(got.Errs) > 0 {
					vp := clean.viablePrefixLen(in)
					for j, x := range in {
						if x == 1 && j < vp {
							vp = j
						}
					}
					wantPos := vp + 1 // 1-based position of the offending token (EOF is len+1)
					if got.Errs[0][1] != wantPos {
						obl := "C09/first-error-blames-first-non-viable-token"
						if vp < len(in) && in[vp] == 1 {
							obl += "/lexer-error-superseded"
						}
						rep.fail(obl, label, fmt.Sprintf("first Error carries the token at position %d, the input stops being a sentence prefix at position %d", got.Errs[0][1], wantPos))
						continue
					}
				}
			}
			if !got.OK {
				continue
			}
			tree, err := parseSx(got.Tree)
			if err != nil {
				rep.fail("C03/tree-readable", label, err.Error()+" in "+got.Tree)
				continue
			}
			tc := &treeChecker{spec: spec}
			tc.node(tree, spec.rules[0].name)
			if tc.prob != "" {
				rep.fail("C03/actions-form-a-derivation-tree", label, tc.prob+" in "+got.Tree)
				continue
			}
			// one action per node, children first, left to right (clean parses: nothing was popped by recovery)
			for j, sq := range tc.seqs {
				if len(got.Errs) > 0 {
					break
				}
				if spec.discard != "" {
					// actions of discarded elements ran too; only the relative order is checked
					if j > 0 && tc.seqs[j-1] >= sq {
						rep.fail("C03/actions-run-bottom-up-left-to-right", label, "actions out of order: "+got.Tree)
						break
					}
					continue
				}
				if sq != j {
					rep.fail("C03/actions-run-bottom-up-left-to-right", label, fmt.Sprintf("post-order position %d was the %d-th action to run: %s", j, sq, got.Tree))
					break
				}
			}
			// the yield is the input (separators re-inserted, discarded elements removed, error stretches collapsed)
			var ysyms []int
			okYield := true
			lastPos := 0
			for _, y := range tc.yield {
				switch y.kind {
				case "tok":
					if y.pos <= lastPos || y.pos > len(in) || in[y.pos-1] != y.typ {
						okYield = false
					}
					lastPos = y.pos
					ysyms = append(ysyms, y.typ)
				case "sep":
					ysyms = append(ysyms, y.typ)
				case "error":
					ysyms = append(ysyms, 1)
				}
			}
			if !okYield {
				rep.fail("C03/values-are-the-input-tokens-in-order", label, "a leaf does not carry the input token at its position: "+got.Tree)
				continue
			}
			if len(got.Errs) == 0 {
				want := in
				if spec.discard != "" {
					d := spec.tokIndex(spec.discard)
					want = nil
					for _, x := range in {
						if x != d {
							want = append(want, x)
						}
					}
					var y2 []int
					for _, x := range ysyms {
						if x != d {
							y2 = append(y2, x)
						}
					}
					ysyms = y2
				}
				if joinInts(ysyms) != joinInts(want) {
					rep.fail("C03/sugar-delivers-documented-values", label, fmt.Sprintf("tree yield %v differs from the input %v: %s", ysyms, want, got.Tree))
					continue
				}
			} else if !full.ref.earley(ysyms) {
				rep.fail("C09/accepted-input-with-error-stretches-is-a-sentence", label, fmt.Sprintf("consumed symbols %v (1 = @error) are not a sentence: %s", ysyms, got.Tree))
				continue
			}
			if spec.bounds {
				checkBounds(rep, label, tree, got, spec.rootNil)
			}
		}
		rep.sample(name)
	})
	rep.done(t, true, fmt.Sprintf("%d fixture grammars (recursion, nullable rules, ? * + *! @list @list?, @error placements, _onBounds); every token string up to length 5-6 (thorough: 6-7) (with lexer ERROR tokens for the @error fixtures), through the real generated parser", len(fx)))
}

// checkBounds: C16 for user-written productions.
func checkBounds(rep *report, label string, tree *sx, got parseOut, rootNil bool) {
	calls := map[string][][2]int{}
	for _, b := range got.Bounds {
		calls[b.What] = append(calls[b.What], [2]int{b.Begin, b.End})
	}
	var walk func(n *sx) (first, last int)
	render := func(n *sx) string { return renderSx(n) }
	walk = func(n *sx) (int, int) {
		first, last := 0, 0
		upd := func(f, l int) {
			if f == 0 {
				return
			}
			if first == 0 {
				first = f
			}
			last = l
		}
		switch n.kind {
		case "tok":
			return n.pos, n.pos
		case "list", "node":
			for _, k := range n.kids {
				f, l := walk(k)
				upd(f, l)
			}
		}
		if n.kind == "node" {
			cs := calls[render(n)]
			if rootNil && n == tree {
				cs = calls["_"] // the root's action returned a nil interface: that is what _onBounds is handed
			}
			if first == 0 {
				if len(cs) != 0 {
					rep.fail("C16/no-call-for-empty-reduction", label, "_onBounds was called for "+render(n))
				}
			} else if len(cs) < 1 || len(cs) > 2 || cs[0] != [2]int{first, last} || cs[len(cs)-1] != [2]int{first, last} {
				// (a second call with the same value and bounds is the generated `x?` node passing its child through)
				rep.fail("C16/one-call-with-first-and-last-token", label, fmt.Sprintf("node %s spans tokens %d..%d, _onBounds calls: %v", render(n), first, last, cs))
			}
		}
		return first, last
	}
	walk(tree)
}

func renderSx(n *sx) string {
	switch n.kind {
	case "nil":
		return "_"
	case "tok":
		return fmt.Sprintf("t%d@%d", n.typ, n.pos)
	case "list":
		var ks []string
		for _, k := range n.kids {
			ks = append(ks, renderSx(k))
		}
		return "[" + strings.Join(ks, " ") + "]"
	case "node":
		var ks []string
		for _, k := range n.kids {
			ks = append(ks, renderSx(k))
		}
		return fmt.Sprintf("(%s#%d:%d %s)", n.rule, n.prod, n.seq, strings.Join(ks, " "))
	}
	return "?"
}
