#!/bin/sh
# builds the checker offline from the files on disk
export GOFLAGS=-mod=mod GOPROXY=off GOSUMDB=off GOTOOLCHAIN=local
cd /verif || exit 2
cp /repo/go.sum go.sum 2>/dev/null
mkdir -p bin evidence
go build -o bin/loxvc ./cmd/loxvc
